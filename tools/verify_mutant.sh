#!/bin/bash
# verify_mutant.sh <srcdir-with-MUTATION> <name>: confirms a seeded change in a
# fresh scratch worktree of /repo HEAD: patch applies, builds, the existing
# suite passes with it, the demo fails with it and passes without it.
# Writes <srcdir>/MUTATION/verify.log and prints a one-line verdict.
set -u
SRC=$1; NAME=$2
WT=/tmp/vm/$NAME
export GOPROXY=off GOSUMDB=off GOFLAGS=
LOG=$SRC/MUTATION/verify.log
: > $LOG
rm -rf $WT; mkdir -p /tmp/vm
git -C /repo worktree add -q --detach $WT HEAD >>$LOG 2>&1 || { echo "$NAME: worktree failed"; exit 2; }
cleanup() { git -C /repo worktree remove --force $WT >/dev/null 2>&1; }
trap cleanup EXIT
cd $WT
# demo files: every *_test.go in MUTATION, placed per demo.txt first path mention or same relative dir as in source worktree.
place_demo() {
  for f in $SRC/MUTATION/*_test.go; do
    b=$(basename $f)
    rel=$(cd $SRC && find internal -name $b | head -1)
    [ -z "$rel" ] && { echo "cannot place $b" >>$LOG; return 1; }
    cp $f $WT/$rel
    echo $(dirname $rel)
  done
}
remove_demo() { for f in $SRC/MUTATION/*_test.go; do find $WT/internal -name $(basename $f) -delete; done; }
run_demo() {
  local dirs="$1" rc=0
  for d in $dirs; do
    if [[ $d == internal/dnsserver* ]]; then
      (cd $WT/internal/dnsserver && go test -vet=off -count=1 -run 'Seeded|seeded|Demo' ./${d#internal/dnsserver}/ ) >>$LOG 2>&1 || rc=1
    else
      (cd $WT && go test -vet=off -count=1 -run 'Seeded|seeded|Demo' ./$d/ ) >>$LOG 2>&1 || rc=1
    fi
  done
  return $rc
}
echo "== demo on original" >>$LOG
DIRS=$(place_demo | sort -u) || { echo "$NAME: FAIL place demo"; exit 1; }
run_demo "$DIRS"; ORIG=$?
remove_demo
echo "== apply patch" >>$LOG
git apply $SRC/MUTATION/patch.diff >>$LOG 2>&1 || { echo "$NAME: FAIL patch does not apply"; exit 1; }
echo "== build" >>$LOG
( go build ./... && cd internal/dnsserver && go build ./... ) >>$LOG 2>&1 || { echo "$NAME: FAIL build"; exit 1; }
echo "== full suite with patch" >>$LOG
SUITE=0
( cd $WT && go test -vet=off -count=1 -timeout 25m ./... ) > $LOG.suite1 2>&1 || SUITE=1
( cd $WT/internal/dnsserver && go test -vet=off -count=1 -timeout 25m ./... ) > $LOG.suite2 2>&1 || SUITE=1
grep -h "^FAIL\|^--- FAIL\|^ok\|panic" $LOG.suite1 $LOG.suite2 | grep -v "^ok" >>$LOG
echo "== demo with patch" >>$LOG
place_demo >/dev/null
run_demo "$DIRS"; MUT=$?
echo "$NAME: demo_on_original=$([ $ORIG = 0 ] && echo PASS || echo FAIL) suite_with_patch=$([ $SUITE = 0 ] && echo PASS || echo FAIL) demo_with_patch=$([ $MUT = 0 ] && echo PASS || echo FAIL)" | tee -a $LOG
