#!/usr/bin/env python3
"""save_seeded.py <name> <srcdir> <caught|missed> <check-note>: stores a verified seeded change under /verif/seeded/<name>/."""
import json, os, shutil, sys, glob
name, src, verdict, note = sys.argv[1:5]
dst = os.path.join('/verif/seeded', name)
os.makedirs(dst, exist_ok=True)
m = os.path.join(src, 'MUTATION')
for f in ['patch.diff', 'demo.txt'] + [os.path.basename(x) for x in glob.glob(m + '/*_test.go')]:
    shutil.copy(os.path.join(m, f), os.path.join(dst, f))
meta = json.load(open(os.path.join(m, 'meta.json')))
vlog = open(os.path.join(m, 'verify.log')).read().strip().splitlines()[-1] if os.path.exists(os.path.join(m, 'verify.log')) else ''
meta['confirmed_by_me'] = vlog
meta['what_i_ran'] = 'tools/verify_mutant.sh (fresh scratch worktree of /repo HEAD: git apply patch.diff; go build ./... in both modules; full go test ./... in both modules with the patch; demo test on original and with patch); then `git -C /repo apply patch.diff; ./check <id> quick; git -C /repo checkout -- .`'
meta['check_result'] = verdict
meta['check_note'] = note
json.dump(meta, open(os.path.join(dst, 'meta.json'), 'w'), indent=1)
print('saved', dst)
