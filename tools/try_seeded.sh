#!/bin/bash
# try_seeded.sh <seeded-name> <PROP> [seed]: runs the property's quick check against a scratch worktree of /repo HEAD
# with the seeded change applied (never touches /repo's working tree).
set -u
NAME=$1; PROP=$2; SEED=${3:-5}
WT=/tmp/vm/try-$NAME
rm -rf $WT; mkdir -p /tmp/vm
git -C /repo worktree add -q --detach $WT HEAD || exit 2
trap 'git -C /repo worktree remove --force $WT >/dev/null 2>&1' EXIT
git -C $WT apply /verif/seeded/$NAME/patch.diff || { echo "$NAME: patch does not apply"; exit 2; }
cd /verif && VERIF_REPO=$WT VERIF_SEED=$SEED VERIF_WORKERS=${VERIF_WORKERS:-8} ./check $PROP quick 2>&1 | grep -a "^violation class\|VIOLATION\|status=" | cut -c1-260
