#!/usr/bin/env python3
"""mut_setup.py <PROP-ID> <suffix> [avoid-text]: creates a scratch worktree /tmp/mut/<ID><suffix> of /repo HEAD
with PROPERTY.json and a prompt file /tmp/mut/prompt-<ID><suffix>.txt for a seeded-change sub-agent."""
import json, os, subprocess, sys
pid, suf = sys.argv[1], sys.argv[2]
avoid = sys.argv[3] if len(sys.argv) > 3 else ""
name = pid + suf
wt = "/tmp/mut/" + name
os.makedirs("/tmp/mut", exist_ok=True)
subprocess.run(["git", "-C", "/repo", "worktree", "remove", "--force", wt], capture_output=True)
subprocess.check_call(["git", "-C", "/repo", "worktree", "add", "-q", "--detach", wt, "HEAD"])
for line in open("/verif/properties.jsonl"):
    p = json.loads(line)
    if p["id"] == pid:
        json.dump(p, open(wt + "/PROPERTY.json", "w"), indent=1)
t = open("/verif/tools/mut_prompt.tmpl").read().replace("__WT__", wt).replace("__NAME__", name)
if avoid:
    t += ("\n\nAn earlier exercise already produced this change for the same property; produce something that is DIFFERENT in "
          "mechanism and touches a different function (ideally a different part of the behaviour the property talks about): " + avoid + "\n")
open("/tmp/mut/prompt-%s.txt" % name, "w").write(t)
print(wt)
