module verif/instrument

go 1.23
