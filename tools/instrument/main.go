// Command instrument rewrites selected packages of the repository's current
// working tree into a scratch directory and emits a `go build -overlay` file,
// so that simulation yields, cooperative locks, simulated condition variables
// and a dial seam exist in the code under test without /repo being touched.
//
// All edits are single-line text splices at AST positions, so line numbers of
// the rewritten files equal those of the originals.
//
// Usage:
//
//	instrument -repo /repo -out DIR -spec 'internal/billstat=locks;internal/profiledb=locks,calls:renameio\.'
//
// Exit status 2 means instrumentation drift: a rule that was asked for
// rewrote nothing.
package main

import (
	"encoding/json"
	"flag"
	"fmt"
	"go/ast"
	"go/parser"
	"go/token"
	"os"
	"path/filepath"
	"regexp"
	"sort"
	"strings"
)

const shimPath = "github.com/AdguardTeam/AdGuardDNS/verif/verifsim"

type edit struct {
	start, end int
	text       string
}

type rule struct {
	kind string
	re   *regexp.Regexp
	repl string
	n    int
}

func main() {
	repo := flag.String("repo", "/repo", "repository root")
	out := flag.String("out", "", "output directory")
	spec := flag.String("spec", "", "pkgdir=rule,rule;pkgdir=...")
	flag.Parse()

	if *out == "" || *spec == "" {
		fmt.Fprintln(os.Stderr, "instrument: -out and -spec are required")
		os.Exit(2)
	}

	overlay := map[string]string{}
	drift := false

	for _, part := range strings.Split(*spec, ";") {
		part = strings.TrimSpace(part)
		if part == "" {
			continue
		}

		dir, rulesStr, ok := strings.Cut(part, "=")
		if !ok {
			fmt.Fprintf(os.Stderr, "instrument: bad spec part %q\n", part)
			os.Exit(2)
		}

		var rules []*rule
		for _, rs := range strings.Split(rulesStr, ",") {
			kind, arg, _ := strings.Cut(rs, ":")
			r := &rule{kind: kind}
			if arg != "" && kind != "textsub" {
				r.re = regexp.MustCompile(arg)
			}
			switch kind {
			case "locks", "dial":
			case "cond":
				if r.re == nil {
					r.re = regexp.MustCompile(`(?i)cond`)
				}
			case "textsub":
				// textsub:<regexp>=><replacement>: plain text substitution,
				// used to adapt third-party code to the exact fake clock.
				pat, repl, ok2 := strings.Cut(arg, "=>")
				if !ok2 {
					fmt.Fprintf(os.Stderr, "instrument: rule %q needs regexp=>replacement\n", rs)
					os.Exit(2)
				}
				r.re = regexp.MustCompile(pat)
				// Commas and semicolons separate rules and spec parts: in a
				// replacement they are written \x2c and \x3b.
				r.repl = strings.NewReplacer(`\x2c`, ",", `\x3b`, ";").Replace(repl)
			case "calls", "callsafter":
				if r.re == nil {
					fmt.Fprintf(os.Stderr, "instrument: rule %q needs a regexp\n", rs)
					os.Exit(2)
				}
			default:
				fmt.Fprintf(os.Stderr, "instrument: unknown rule %q\n", rs)
				os.Exit(2)
			}
			rules = append(rules, r)
		}

		err := doPackage(*repo, dir, *out, rules, overlay)
		if err != nil {
			fmt.Fprintf(os.Stderr, "instrument: %s: %v\n", dir, err)
			os.Exit(2)
		}

		for _, r := range rules {
			arg := ""
			if r.re != nil {
				arg = ":" + r.re.String()
			}
			fmt.Printf("instrument: %s %s%s sites=%d\n", dir, r.kind, arg, r.n)
			if r.n == 0 {
				drift = true
			}
		}
	}

	b, err := json.MarshalIndent(map[string]any{"Replace": overlay}, "", " ")
	if err != nil {
		panic(err)
	}

	err = os.WriteFile(filepath.Join(*out, "overlay.json"), b, 0o644)
	if err != nil {
		fmt.Fprintln(os.Stderr, "instrument:", err)
		os.Exit(2)
	}

	if drift {
		fmt.Fprintln(os.Stderr, "instrument: a requested rule matched no site (instrumentation drift)")
		os.Exit(2)
	}
}

func doPackage(repo, dir, out string, rules []*rule, overlay map[string]string) (err error) {
	abs := filepath.Join(repo, dir)
	if filepath.IsAbs(dir) {
		abs = dir
		dir = filepath.Join("_abs", filepath.Base(dir))
	}
	ents, err := os.ReadDir(abs)
	if err != nil {
		return err
	}

	for _, e := range ents {
		name := e.Name()
		if e.IsDir() || !strings.HasSuffix(name, ".go") || strings.HasSuffix(name, "_test.go") {
			continue
		}

		src, rerr := os.ReadFile(filepath.Join(abs, name))
		if rerr != nil {
			return rerr
		}

		fset := token.NewFileSet()
		f, perr := parser.ParseFile(fset, name, src, parser.ParseComments)
		if perr != nil {
			return perr
		}

		edits := fileEdits(fset, f, src, filepath.Join(dir, name), rules)
		subbed := false
		for _, r := range rules {
			if r.kind != "textsub" {
				continue
			}
			if locs := r.re.FindAllIndex(src, -1); len(locs) > 0 {
				r.n += len(locs)
				subbed = true
			}
		}
		if len(edits) == 0 && !subbed {
			continue
		}

		needImport := len(edits) > 0
		for _, r := range rules {
			if r.kind == "textsub" && strings.Contains(r.repl, "verifsim.") && r.re.Match(src) {
				needImport = true
			}
		}
		if needImport {
			// Import on the package clause's line keeps line numbers stable.
			pkgEnd := fset.Position(f.Name.End()).Offset
			edits = append(edits, edit{
				start: pkgEnd,
				end:   pkgEnd,
				text:  "; import verifsim \"" + shimPath + "\"",
			})
		}

		sort.SliceStable(edits, func(i, j int) bool { return edits[i].start > edits[j].start })

		res := src
		lastStart := len(src) + 1
		for _, ed := range edits {
			if ed.end > lastStart {
				return fmt.Errorf("%s: overlapping edits at offset %d", name, ed.start)
			}
			res = append(append(append([]byte{}, res[:ed.start]...), ed.text...), res[ed.end:]...)
			lastStart = ed.start
		}

		for _, r := range rules {
			if r.kind == "textsub" {
				res = r.re.ReplaceAll(res, []byte(r.repl))
			}
		}

		dst := filepath.Join(out, dir, name)
		err = os.MkdirAll(filepath.Dir(dst), 0o755)
		if err != nil {
			return err
		}

		err = os.WriteFile(dst, res, 0o644)
		if err != nil {
			return err
		}

		overlay[filepath.Join(abs, name)] = dst
	}

	return nil
}

func exprText(fset *token.FileSet, src []byte, e ast.Node) (s string) {
	return string(src[fset.Position(e.Pos()).Offset:fset.Position(e.End()).Offset])
}

func fileEdits(fset *token.FileSet, f *ast.File, src []byte, rel string, rules []*rule) (edits []edit) {
	site := func(n ast.Node) string {
		return fmt.Sprintf("%q", fmt.Sprintf("%s:%d", rel, fset.Position(n.Pos()).Line))
	}

	off := func(p token.Pos) int { return fset.Position(p).Offset }

	var ruleOf = func(kind string) (rs []*rule) {
		for _, r := range rules {
			if r.kind == kind {
				rs = append(rs, r)
			}
		}

		return rs
	}

	usesNet := false

	// Statement-level rewrites: visit every statement list.
	var visitList func(list []ast.Stmt)
	visitList = func(list []ast.Stmt) {
		for _, st := range list {
			replaced := false

			if es, ok := st.(*ast.ExprStmt); ok {
				if call, ok := es.X.(*ast.CallExpr); ok && len(call.Args) == 0 {
					if sel, ok := call.Fun.(*ast.SelectorExpr); ok {
						recv := exprText(fset, src, sel.X)
						switch sel.Sel.Name {
						case "Lock", "RLock":
							for _, r := range ruleOf("locks") {
								try := "TryLock"
								if sel.Sel.Name == "RLock" {
									try = "TryRLock"
								}
								s := site(st)
								if strings.HasSuffix(recv, ".L") && sel.Sel.Name == "Lock" {
									edits = append(edits, edit{
										start: off(st.Pos()),
										end:   off(st.End()),
										text:  fmt.Sprintf("verifsim.LockLocker(%s, %s)", recv, s),
									})
									r.n++
									replaced = true

									break
								}
								edits = append(edits, edit{
									start: off(st.Pos()),
									end:   off(st.End()),
									text: fmt.Sprintf(
										"if verifsim.Active() { verifsim.Yield(%s); for !%s.%s() { verifsim.Blocked(%s) } } else { %s.%s() }",
										s, recv, try, s, recv, sel.Sel.Name,
									),
								})
								r.n++
								replaced = true

								break
							}
						case "Wait", "Signal", "Broadcast":
							for _, r := range ruleOf("cond") {
								if !r.re.MatchString(recv) {
									continue
								}
								edits = append(edits, edit{
									start: off(st.Pos()),
									end:   off(st.End()),
									text:  fmt.Sprintf("verifsim.Cond%s(%s, %s)", sel.Sel.Name, recv, site(st)),
								})
								r.n++
								replaced = true

								break
							}
						}
					}
				}
			}

			// A deferred Lock (the mirror image of the usual deferred Unlock)
			// must wait the same cooperative way.
			if ds, ok := st.(*ast.DeferStmt); ok && len(ds.Call.Args) == 0 {
				if sel, ok := ds.Call.Fun.(*ast.SelectorExpr); ok && (sel.Sel.Name == "Lock" || sel.Sel.Name == "RLock") {
					recv := exprText(fset, src, sel.X)
					for _, r := range ruleOf("locks") {
						try := "Try" + sel.Sel.Name
						s := site(st)
						text := fmt.Sprintf(
							"defer func() { if verifsim.Active() { verifsim.Yield(%s); for !%s.%s() { verifsim.Blocked(%s) } } else { %s.%s() } }()",
							s, recv, try, s, recv, sel.Sel.Name,
						)
						if strings.HasSuffix(recv, ".L") && sel.Sel.Name == "Lock" {
							text = fmt.Sprintf("defer verifsim.LockLocker(%s, %s)", recv, s)
						}
						edits = append(edits, edit{start: off(st.Pos()), end: off(st.End()), text: text})
						r.n++
						replaced = true

						break
					}
				}
			}

			if !replaced {
				for _, kind := range []string{"calls", "callsafter"} {
					for _, r := range ruleOf(kind) {
						if !stmtHeadCalls(fset, src, st, r.re) {
							continue
						}

						if kind == "calls" {
							edits = append(edits, edit{
								start: off(st.Pos()),
								end:   off(st.Pos()),
								text:  fmt.Sprintf("verifsim.Yield(%s); ", site(st)),
							})
						} else {
							switch st.(type) {
							case *ast.ExprStmt, *ast.AssignStmt:
								edits = append(edits, edit{
									start: off(st.End()),
									end:   off(st.End()),
									text:  fmt.Sprintf("; verifsim.Yield(%s)", fmt.Sprintf("%q", fmt.Sprintf("%s:%d+", rel, fset.Position(st.Pos()).Line))),
								})
							default:
								continue
							}
						}
						r.n++

						break
					}
				}
			}
		}
	}

	ast.Inspect(f, func(n ast.Node) bool {
		switch n := n.(type) {
		case *ast.BlockStmt:
			visitList(n.List)
		case *ast.CaseClause:
			visitList(n.Body)
		case *ast.CommClause:
			visitList(n.Body)
		case *ast.CallExpr:
			if sel, ok := n.Fun.(*ast.SelectorExpr); ok {
				if id, ok := sel.X.(*ast.Ident); ok && id.Name == "net" && sel.Sel.Name == "DialTimeout" {
					for _, r := range ruleOf("dial") {
						edits = append(edits, edit{
							start: off(n.Fun.Pos()),
							end:   off(n.Fun.End()),
							text:  "verifsim.DialTimeout",
						})
						r.n++
						usesNet = true
					}
				}
			}
		}

		return true
	})

	if usesNet {
		end := len(src)
		edits = append(edits, edit{start: end, end: end, text: "\nvar _ = net.ErrClosed\n"})
	}

	return edits
}

// stmtHeadCalls reports whether the part of st that is evaluated when control
// reaches it (not nested blocks, not function literals) contains a call whose
// callee text matches re.
func stmtHeadCalls(fset *token.FileSet, src []byte, st ast.Stmt, re *regexp.Regexp) (ok bool) {
	var heads []ast.Node
	switch st := st.(type) {
	case *ast.ExprStmt, *ast.AssignStmt, *ast.ReturnStmt, *ast.DeclStmt, *ast.SendStmt, *ast.IncDecStmt:
		heads = append(heads, st)
	case *ast.IfStmt:
		if st.Init != nil {
			heads = append(heads, st.Init)
		}
		heads = append(heads, st.Cond)
	case *ast.SwitchStmt:
		if st.Init != nil {
			heads = append(heads, st.Init)
		}
		if st.Tag != nil {
			heads = append(heads, st.Tag)
		}
	case *ast.RangeStmt:
		heads = append(heads, st.X)
	default:
		return false
	}

	for _, h := range heads {
		ast.Inspect(h, func(n ast.Node) bool {
			if ok {
				return false
			}

			switch n := n.(type) {
			case *ast.FuncLit:
				return false
			case *ast.CallExpr:
				if re.MatchString(exprText(fset, src, n.Fun)) {
					ok = true

					return false
				}
			}

			return true
		})
	}

	return ok
}
