#!/bin/bash
# regen_evidence.sh: runs every quick check once against /repo (seed 1) so that the committed evidence files
# describe runs of /verif against /repo itself; prints the status lines.
cd /verif
for id in $(python3 -c "import json;print(' '.join(c['property_id'] for c in json.load(open('MANIFEST.json'))['checks']))"); do
  VERIF_SEED=1 ./check $id quick 2>&1 | grep -a "^VIOLATION\|^KNOWN\|status=" | cut -c1-160
done
