#!/bin/bash
# check_all_seeded.sh [names...]: every seeded change under /verif/seeded against its property's quick check.
cd /verif
for d in ${@:-$(ls seeded)}; do
  prop=$(python3 -c "import json;print(json.load(open('seeded/$d/meta.json'))['property'])")
  out=$(tools/try_seeded.sh $d $prop 7 2>&1)
  if echo "$out" | grep -q "^VIOLATION"; then echo "$d: CAUGHT ($(echo "$out" | grep -a '^violation class' | head -1 | cut -c1-120))"; else echo "$d: MISSED"; echo "$out" | tail -2; fi
done
