"""Per-property configuration of the checks: engine, instrumentation spec,
sub-batches, budgets, and the descriptive fields of the evidence files."""

REAL_COMMON = "clock: testing/synctest fake clock; scheduler: /verif/sim/kernel (choice tape, one decision at a time)"

# quic-go compares `now.After(idle deadline)`; under the exact fake clock the
# idle timer fires with now == deadline, the check fails and the run loop
# re-arms the same timer for ever.  The simulated copy uses !now.Before().
# More generally quic-go arms its timers with time.Until(deadline) and then
# compares now with the same deadline using strict After/Before, which a real
# clock always satisfies because timers fire late; the simulated copy fires
# them one microsecond after the deadline.
QUIC_MODREPLACE = {"github.com/quic-go/quic-go@v0.48.2": (
    ".=textsub:now\\.After\\(s\\.nextIdleTimeoutTime\\(\\)\\)=>!now.Before(s.nextIdleTimeoutTime());"
    "internal/utils=textsub:t\\.t\\.Reset\\(time\\.Until\\(deadline\\)\\)=>t.t.Reset(time.Until(deadline) + time.Microsecond)")}

# The DNSCrypt library serves UDP through *net.UDPConn with socket options and
# out-of-band data; the simulated copy uses the net.PacketConn interface (read
# and write with plain addresses).  The server's own assertion on the listener
# type is relaxed in the same way by WIRE_INSTRUMENT.
DNSCRYPT_MODREPLACE = {"github.com/ameshkov/dnscrypt/v2@v2.3.0": (
    ".=textsub:\\*net\\.UDPConn=>net.PacketConn,"
    "textsub:\\*dns\\.SessionUDP=>net.Addr,"
    "textsub:w\\.sess\\.RemoteAddr\\(\\)=>w.sess,"
    "textsub:err := setUDPSocketOptions\\(l\\)=>err := error(nil),"
    "textsub:dns\\.ReadFromSessionUDP\\(l\\x2c b\\)=>l.ReadFrom(b),"
    "textsub:dns\\.WriteToSessionUDP\\(w\\.udpConn\\x2c res\\x2c w\\.sess\\)=>w.udpConn.WriteTo(res\\x2c w.sess),"
    "textsub:dns\\.WriteToSessionUDP\\(l\\x2c reply\\x2c sess\\)=>l.WriteTo(reply\\x2c sess)")}
WIRE_MODREPLACE = dict(QUIC_MODREPLACE, **DNSCRYPT_MODREPLACE)
WIRE_INSTRUMENT = ("internal/dnsserver=textsub:s\\.udpListener\\.\\(\\*net\\.UDPConn\\)=>s.udpListener.(net.PacketConn);"
                   # internal/bindtodevice opens its sockets (one per interface and port) on the simulated network.
                   "internal/bindtodevice=textsub:l\\.listenConf\\.ListenPacket\\(=>verifsim.ListenPacket(l.listenConf\\x2c ,"
                   "textsub:l\\.listenConf\\.Listen\\(=>verifsim.Listen(l.listenConf\\x2c ,"
                   "textsub:\\*net\\.UDPConn([\\x2c)])=>verifsim.MsgUDPConn$1")

# The gRPC clients of internal/backendpb dial through the simulated network.
BPB_INSTRUMENT = ("internal/backendpb=textsub:grpc\\.NewClient\\(apiURL\\.Host\\x2c grpc\\.WithTransportCredentials\\(creds\\)\\)"
                  "=>grpc.NewClient(\"passthrough:///\"+apiURL.Host\\x2c grpc.WithTransportCredentials(creds)\\x2c grpc.WithContextDialer(verifsim.DialContext))")

PROPS = {
    "C16": {
        "parts": [
            {"engine": "billsim", "instrument": "internal/billstat=locks", "cfgs": ["", "nofault"], "share": 2, "chunk": 4000},
            {"engine": "bpbsim", "instrument": BPB_INSTRUMENT, "cfgs": ["", "nofault", "bulk"], "share": 1, "chunk": 300, "det_trace": False},
        ],
        "quick": {"seconds": 25, "chunk": 4000, "runs": 400000},
        "thorough": {"seconds": 600, "chunk": 20000},
        "rule": ("one run = tape-generated workload (1-4 recorder tasks x 1-10 Record calls over 1-4 devices, "
                 "1-2 refresher tasks x 1-4 Refresh calls, upload outcome per attempt) executed under a "
                 "tape-chosen interleaving with yields before every Record/Refresh, before every mutex "
                 "acquisition inside billstat, inside every call of the metrics collector and while each Upload is in flight; one refresh in eight starts with a finished context, one successful upload in eight ends the caller's context as it accepts the batch; a run is non-trivial when "
                 "the scheduler preempted a runnable task at least once or an upload failure fired; distinct "
                 "= distinct hash of the full decision sequence (workload + schedule + faults); failed uploads fail as a "
                 "service error, an exceeded deadline, a cancellation or a broken connection.  bpbsim part: the real gRPC "
                 "uploader of internal/backendpb against a gRPC server in the bubble; 3-30 records and refreshes in sequence; "
                 "per upload the backend fails before reading, after 1-3 records, at the end, or with the deadline status; "
                 "a batch counts as delivered when Refresh returned nil, and the backend must then have accepted all of it; bulk "
                 "sub-batch: a batch of 8000-10000 devices, several times what fixed flow-control windows and the client's write "
                 "buffer let it send ahead, which the backend answers with OK after 1-3 records: the client sees its stream end "
                 "with records unsent and must not report delivery"),
        "assumptions": [
            "the scheduler switches tasks only at inserted yields (harness yields, mutex acquisitions in billstat, in-flight Upload); data races inside a critical section are not explored",
            "process-kill/disk faults do not apply: the recorder is in-memory by design",
            "the recency clause of the metadata oracle is applied only to runs in which Refresh calls did not overlap (production runs one refresh worker)",
        ],
        "components": {
            "real": ["internal/billstat.RuntimeRecorder (Record, Refresh, resetRecords, remergeRecords)", "bpbsim part: internal/backendpb BillStat uploader over real google.golang.org/grpc client and server on the simulated network"],
            "stub": ["billsim part: billstat.Uploader (simulated: parks in flight, tape-chosen success/failure)", "bpbsim part: the backend service (gRPC server in the bubble)", "errcoll, metrics (no-op)"],
            "sim": REAL_COMMON,
        },
    },
    "C18": {
        "parts": [
            {"engine": "connsim", "instrument": "internal/connlimiter=locks,cond", "cfgs": ["", "multi"], "share": 3, "chunk": 4000},
            {"engine": "wire", "instrument": WIRE_INSTRUMENT, "cfgs": [""], "modreplace": WIRE_MODREPLACE, "share": 1, "chunk": 200},
        ],
        "quick": {"seconds": 25, "chunk": 4000, "runs": 300000},
        "thorough": {"seconds": 600, "chunk": 20000},
        "rule": ("one run = limiter with tape-chosen stop in 1..5 and resume in 0..stop over 1-3 simulated "
                 "listeners; tasks: one accept loop per listener, a dialer (1-10 clients), 1-2 closers (close, "
                 "double close, close of the same connection from two tasks), optionally a listener closer "
                 "(close, double close); yields before every mutex acquisition and at every cond wait/signal "
                 "inside connlimiter; non-trivial = the scheduler preempted a runnable task or a listener was "
                 "closed; distinct = distinct hash of the decision sequence"),
        "assumptions": [
            "the reference hysteresis (count, accepting) is driven by events the harness observes in the same scheduler step in which the limiter changes its counter (there is no yield between the counter update and the observation)",
            "pipeline limiting (second half of C18) is checked by the wire engine part: real ServerDNS/ServerTLS with limit 1-4, bursts of 1-20 queries in one write, handler holding each query for 0/50ms/1s of simulated time",
            "bounded liveness is asserted only at quiescence after dialer, closers and listener closer have finished",
        ],
        "components": {
            "real": ["internal/connlimiter (Limiter, limitListener, limitConn, counter)", "internal/dnsserver ServerDNS/ServerTLS pipeline semaphore (wire part)"],
            "stub": ["net.Listener / net.Conn below the limiter (simulated)", "prometheus metrics (real registry, unobserved)"],
            "sim": REAL_COMMON,
        },
    },
    "C14": {
        "parts": [
            {"engine": "pdbsim",
             "instrument": "internal/profiledb=locks;internal/profiledb/internal/filecachepb=calls:renameio\\.|os\\.WriteFile|os\\.Rename",
             "modreplace": {"github.com/google/renameio/v2@v2.0.0": ".=calls:^t\\.Write$|^t\\.Sync$|os\\.Rename|CloseAtomicallyReplace"},
             "cfgs": ["", "nocrash", "toggle", "overlap"], "share": 3, "chunk": 1500},
            {"engine": "bpbsim", "instrument": BPB_INSTRUMENT, "cfgs": [""], "share": 1, "chunk": 300, "det_trace": False},
        ],
        "quick": {"seconds": 40, "chunk": 1500, "runs": 60000},
        "thorough": {"seconds": 900, "chunk": 5000},
        "rule": ("one run = simulated backend (1-3 profiles, up to 8 devices, pools of 4 linked IPs, 4 dedicated IPs, "
                 "3 human IDs) mutated by tape-chosen operations (add/remove/move device, set/take over/swap/clear "
                 "linked IP, dedicated IPs, human IDs, delete/re-create profile, change every profile and device "
                 "setting) between 1-6 refreshes whose kind (full/incremental) the database chooses from simulated "
                 "time; 1-3 lookup tasks x 1-12 lookups by all four key kinds; storage errors; yields before every "
                 "lock acquisition in profiledb (so every `go db.remove...` clean-up is ordered by the tape against "
                 "the next sync and lookups), during the storage request, and around the steps of the atomic cache "
                 "write; crash images of the cache directory at those steps; non-trivial = a preemption was taken or "
                 "a fault fired; distinct = distinct decision-sequence hash.  bpbsim part: the real gRPC profile storage of "
                 "internal/backendpb (dialling through the simulated network) against a gRPC server in the bubble that holds "
                 "1-4 profiles and their devices as protobuf messages and changes them between 4-40 operations (settings, "
                 "moves, new and removed devices, deletions; devices the client must reject: malformed ID, dedicated address "
                 "outside the servers' addresses; profiles it must reject: unusable blocking mode); synchronisations full or "
                 "incremental by simulated time, with the backend failing before, in the middle of or at the end of the stream, "
                 "exceeding the deadline or omitting the sync_time trailer; lookups by all four key kinds compared with the "
                 "content of the successful synchronisations.  pdbsim overlap sub-batch: a second caller of Refresh (as the debug API "
                 "is next to the periodic worker) whose calls overlap the synchroniser's"),
        "assumptions": [
            "the backend stub sends, like the real one, every changed profile with all of its devices, and at most one current owner per key",
            "a lookup overlapping a refresh may see the version before or after it; exact equality is demanded from lookups that do not overlap one",
            "CreateAutoDevice is exercised through the device finder in the C03 check, not here",
            "bpbsim part: sequential histories (interleavings are the pdbsim part's subject); a profile may start unusable and be repaired, not the other way round (the statement defines nothing for a database that keeps the last accepted state of one profile next to newer states of others); lookups for which the reference itself is ambiguous are not judged",
            "crash images model a killed process (every completed syscall survives); power loss is out of reach without a file-system seam",
            "renameio v2.0.0 runs real code with yields inserted by overlay between its write, sync and rename steps",
        ],
        "components": {
            "real": ["internal/profiledb.Default", "internal/profiledb/internal/filecachepb (protobuf encode/decode, Store, Load)", "github.com/google/renameio/v2 (instrumented)", "real files in a per-run scratch directory", "bpbsim part: internal/backendpb ProfileStorage (profile.go, device.go conversions, stream handling, error mapping) over real google.golang.org/grpc client and server on the simulated network"],
            "stub": ["pdbsim part: profiledb.Storage (simulated backend with change log)", "bpbsim part: the backend service (gRPC server implementing DNSService in the bubble)", "errcoll, metrics (no-op)"],
            "sim": REAL_COMMON,
        },
    },
    "C09": {
        "parts": [
            {"engine": "rlsim", "cfgs": [""], "share": 2, "chunk": 5000},
            {"engine": "sysim", "cfgs": [""], "share": 1, "chunk": 1500},
        ],
        "quick": {"seconds": 25, "chunk": 5000, "runs": 400000},
        "thorough": {"seconds": 600, "chunk": 20000},
        "rule": ("one run = tape-chosen limiter configuration (limits 1-4, intervals, key lengths /8../32 and /32../128, "
                 "backoff count 1-3, period/duration, refuse-ANY, allowlist) and a history of 3-40 events (gap from a set "
                 "around the interval, period and duration boundaries incl. 0 and +-1ns; client from a per-run subset of 9 "
                 "addresses sharing or not sharing a key; qtype; response size around multiples of the estimate) through the "
                 "real Middleware+Backoff on the simulated clock; every run is non-trivial; distinct = distinct hash of the "
                 "decision sequence.  sysim part: the rate-limiting stage of the real dnssvc handler stack (ratelimitmw) with the "
                 "real global Backoff and real per-profile limiters (one profile without a limit of its own, one with a limit "
                 "0-3/s for all clients, one with a limit for two client subnets; response-size estimates 100/250), 3-40 "
                 "requests from anonymous clients and devices (EDNS CPE-ID on plain DNS, TLS server name on DoT), responses whose bulk is in the answer, authority or additional section, gaps around "
                 "the 1 s profile window and the global interval; reference = sliding-window log per global subnet key and per "
                 "profile; a dropped query must not reach the upstream"),
        "assumptions": [
            "backoff accounting follows the implementation's reading (hits are counted from the first over-limit event for backoff_duration): the statement does not fix it and the documentation is ambiguous; see DESIGN.md",
            "events whose timestamp lies exactly on a window or backoff boundary are not judged and end the run (the statement does not say which side is meant)",
            "whether 'ANY queries are dropped for everyone' extends to a client under its profile's own limit is not judged (the profile path never consults the global limiter); such ANY queries are not generated",
            "a profile's own limit is one window per profile (all its clients together), as the implementation has it; the statement does not say per what",
        ],
        "components": {
            "real": ["internal/dnsserver/ratelimit (Backoff, RequestCounter, DynamicAllowlist, Middleware)", "patrickmn/go-cache on the simulated clock", "sysim part: dnssvc.NewHandlers stack (ratelimitmw, device finder, real profiledb), agd.DefaultRatelimiter"],
            "stub": ["next handler (returns a response of tape-chosen size)", "response writer"],
            "sim": "clock: testing/synctest fake clock; sequential history, no scheduler needed",
        },
    },
    "C04": {
        "engine": "cachesim",
        "instrument": "",
        "cfgs": ["simple", "ecs", "ecsmw"],
        "quick": {"seconds": 30, "chunk": 3000, "runs": 200000},
        "thorough": {"seconds": 900, "chunk": 10000},
        "rule": ("one run = cache configuration (simple dnsserver/cache middleware, or the ECS cache inside the full handler "
                 "stack; min-TTL override on/off) and a history of 3-40 queries over a per-run subset of 18 scripted names "
                 "(answers with per-record TTLs 0,2,5,30,300,2^31; CNAME chain; NODATA with/without SOA, SOA.MINIMUM below/"
                 "above TTL; NXDOMAIN; SERVFAIL; REFUSED; truncated; AD; RRSIG under DO; ECS-scoped; glue records; extended errors; pairs of names that differ in one non-letter octet 0x20 apart), qtypes, classes, case, "
                 "DO/AD/CD, ECS options and clients, separated by clock advances from {0, .1, .4, .5, .6, 1s, TTL-.6, TTL-.4, "
                 "TTL-1ns, TTL, TTL+1ns, 2TTL, 29s, 31s, 5min}; every answer served without an upstream call is compared "
                 "with a freshly started twin asked at the same instant; non-trivial = at least one cache hit; distinct = "
                 "distinct decision-sequence hash"),
        "assumptions": [
            "the upstream answer is a pure function of (question, DO, forwarded subnet)",
            "clients without a coarse GeoIP subnet are excluded from C04 runs (their scope-zero answers are shared by design; C05 covers them)",
            "TTL bound uses round-half-up of (original TTL - exact simulated age), original TTL taken from the fresh twin's answer (so the min-TTL override is excepted as the statement says)",
        ],
        "components": {
            "real": ["internal/dnsserver/cache (simple)", "internal/ecscache + dnssvc.NewHandlers stack: initial, ratelimitmw (request info, ECS parsing), preservice, mainmw, preupstream (ecs)", "dnsmsg.Cloner", "agdcache LRU / gcache on the simulated clock"],
            "stub": ["upstream handler (scripted)", "GeoIP (transparent address->location->subnet table)", "filters (empty), profile DB (disabled), rate limiter (never limits)"],
            "sim": "clock: testing/synctest fake clock; sequential history",
        },
    },
    "C05": {
        "engine": "cachesim",
        "instrument": "",
        "cfgs": ["ecs", "ecsmw", "geofile"],
        "quick": {"seconds": 30, "chunk": 3000, "runs": 200000},
        "thorough": {"seconds": 900, "chunk": 10000},
        "rule": ("one run = ECS cache inside the full handler stack; 3-40 queries from a per-run subset of 7 clients (IPv4/IPv6, "
                 "locations known, unknown, known without a subnet for the family) with ECS option absent / own prefix / "
                 "foreign prefix / own address / other family / zero-length / a valid option followed by a second one with the client's own address (the scripted upstream looks at every option it gets) / malformed (bad family, family zero, bits beyond prefix, mask "
                 "too long), for names the upstream scopes to the subnet and names it does not, in all arrival orders and "
                 "cache ages; upstream answers are tagged with the subnet they were computed for; the coarse subnets of the table have "
                 "prefix lengths that are not multiples of eight and differ inside one octet; geofile sub-batch: the real geoip.File "
                 "on the MaxMind test databases of the repository (tape-chosen top autonomous systems per run, country database "
                 "replaced and refreshed in mid-run), judged against direct look-ups in the same databases: what goes upstream, and "
                 "what a cache hit was computed for, is the zero prefix or a subnet of the client's (or its ECS option's) own country, "
                 "autonomous system or the country's configured top autonomous system, never the supplied prefix or a host address; "
                 "non-trivial = a cache hit occurred; distinct = distinct decision-sequence hash"),
        "assumptions": [
            "geofile sub-batch: client and ECS addresses are chosen so that their whole /24 (or /56) lies in one record of every database (geoip.File caches locations per /24 and /56)",
            "the GeoIP stub maps address -> (country, ASN) -> coarse subnet per family transparently; client addresses and client-supplied prefixes are disjoint from the coarse subnets",
            "an answer the upstream computed for the zero prefix has scope zero and may be served to every client of that family",
        ],
        "components": {
            "real": ["internal/ecscache", "dnssvc.NewHandlers stack incl. ratelimitmw request-info/ECS parsing (FORMERR path)", "dnsmsg ECS helpers", "geofile sub-batch: internal/geoip.File (Data, SubnetByLocation, Refresh, location caches) on oschwald/maxminddb-golang and the repository's test databases"],
            "stub": ["upstream handler (scripted, tags answers with the forwarded subnet)", "GeoIP (transparent table; the real internal/geoip.File in the geofile sub-batch)"],
            "sim": "clock: testing/synctest fake clock; sequential history",
        },
    },
    "C01": {
        "engine": "wire",
        "instrument": WIRE_INSTRUMENT,
        "cfgs": ["", "nodrop", "nofault"],
        "det_runs": 12,
        "modreplace": WIRE_MODREPLACE,
        "det_trace": False,
        "quick": {"seconds": 60, "chunk": 150, "runs": 6000, "chunk_ms": 40000, "kill_after": 300},
        "thorough": {"seconds": 1200, "chunk": 400, "kill_after": 600},
        "rule": ("one run = nine real listeners (plain DNS UDP+TCP, DoT, DoH over HTTP/1.1, HTTP/2 and HTTP/3, DoQ, DNSCrypt UDP+TCP) on the simulated network with one "
                 "deterministic pipeline function as handler; 4-24 items, each a well-formed query (names: mixed case, escaped "
                 "bytes, 1-127 labels, 255 octets, root; 10 qtypes incl. 0/65535/ANY/OPT/AXFR; 6 qclasses; RD/AD/CD/Z/TC/AA bits; "
                 "EDNS with sizes 0..65535, DO, NSID/cookie/padding up to 1200 bytes/unknown options) or a non-query (QR=1, "
                 "opcodes 1-15, QDCOUNT 0/2, ANCOUNT/NSCOUNT 2, garbage, valid message cut at any offset, trailing garbage), "
                 "every item sent over every transport (DoH as POST, GET or JSON; DNSCrypt sealed with a per-task client key, the "
                 "length prefix of a DNSCrypt/TCP query deliberately split in 1 of 6 exchanges), pipelined and grouped per connection "
                 "by the client task's private generator; stream clients also half-close with queries in flight, vanish without "
                 "reading, or send the beginning of one more message and fall silent; the handler takes 0-900 ms per name in half "
                 "of the runs; network per flow: stream segmentation down to single bytes, latencies 0-300ms "
                 "(reordering), datagram duplication and loss; then, faults off, a fresh query to each listener; in a share of the runs (tape-chosen) the plain-DNS and DoT servers listen through the real interface listeners of internal/bindtodevice (channel sizes 1, 4 or 64) on simulated sockets; "
                 "every run is non-trivial; distinct = distinct decision-sequence hash"),
        "assumptions": [
            "client tasks and servers are real goroutines whose interleaving the Go scheduler decides; every random choice of a task or a network flow comes from a generator private to it (seeded from the tape), so decisions replay exactly while the order of unrelated goroutines may differ",
            "a message the servers decode but drop is answered on DoQ with a bare SERVFAIL carrying its own ID and question and on DoH with HTTP 500: accepted as the transport's form of dropping",
            "queries pipelined in front of a message that makes a stream server close the connection are not judged; on DoQ/UDP a missing answer is judged only in the sub-batches without datagram loss",
            "the DNSCrypt library (ameshkov/dnscrypt v2.3.0) runs in a copy that serves UDP through the net.PacketConn interface instead of *net.UDPConn with socket options; the server's own type assertion on its listener is relaxed in the same way; the DNSCrypt layer itself drops messages that are responses, do not have exactly one question or are shorter than 17 octets, which is accepted as the transport's form of dropping",
            "KNOWN FINDING (dependency): a DNSCrypt/TCP query whose two-octet length prefix arrives in two segments gets no response; listed in known_findings.json, other exchanges on DNSCrypt/TCP send the prefix in one segment",
            "queries longer than 512 octets are not sent over plain UDP (RFC 1035 4.2.1; the server's datagram receive buffer is 512 octets and drops them), they are exercised on the stream transports",
            "quic-go v0.48.2 runs in a copy whose timers fire 1us after their deadline (it compares now with the deadline strictly, which the exact fake clock never satisfies)",
        ],
        "components": {
            "real": ["internal/dnsserver: ServerDNS (UDP, TCP), ServerTLS, ServerHTTPS (HTTP/1.1, h2, h3), ServerQUIC, ServerDNSCrypt, normalize, message acceptance", "crypto/tls, net/http, x/net/http2, quic-go, ameshkov/dnscrypt (patched copy) on the simulated network", "internal/bindtodevice (Manager, interface listeners, channel listeners and packet connections) under the plain-DNS and DoT servers in a third of the runs"],
            "stub": ["network (simnet over netext.ListenConfig)", "handler (deterministic pipeline function)", "clock (synctest)"],
            "sim": "clock: testing/synctest; network: /verif/sim/simnet discrete-event mode with per-flow generators",
        },
    },
    "C06": {
        "parts": [
            {"engine": "wire", "instrument": WIRE_INSTRUMENT, "cfgs": [""], "modreplace": WIRE_MODREPLACE, "share": 2, "chunk": 150},
            {"engine": "fwdsim", "instrument": "internal/dnsserver/forward=dial", "cfgs": [""], "share": 1, "chunk": 1500, "det_trace": False},
        ],
        "det_runs": 12,
        "det_trace": False,
        "quick": {"seconds": 60, "chunk": 150, "runs": 4000, "chunk_ms": 40000, "kill_after": 300},
        "thorough": {"seconds": 1200, "chunk": 400, "kill_after": 600},
        "rule": ("one run = two identically configured groups of servers (UDP, TCP, DoT, DoH, DoQ each) in one bubble; group A "
                 "first serves a history of 1-12 victim queries (unique token names, sizes 30-750 bytes) on every transport so "
                 "that its pooled receive buffers hold their bytes (GC off, one P), a quarter of the DoH uploads being given up before their announced end; then one probe - header only with QDCOUNT=1, "
                 "cut at any offset, ANCOUNT/QDCOUNT/ARCOUNT exceeding the data, cut inside a label; on streams also a length "
                 "prefix larger or smaller than the payload, the DoQ stream written in one to six pieces - goes to A and to the fresh group B; in a share of the runs (tape-chosen) the plain-DNS and DoT servers listen through the real interface listeners of internal/bindtodevice (channel sizes 1, 4 or 64) on simulated sockets; every run is non-trivial; "
                 "distinct = distinct decision-sequence hash"),
        "assumptions": [
            "buffer reuse is made likely, not certain: sync.Pool on one P with the collector off; the evidence counts history messages, not confirmed reuses",
            "the upstream-reply half of C06 (forward.UpstreamPlain) is checked by the fwdsim sub-batch of this property",
            "network without faults: the fault dimension here is the history of the pooled buffers",
        ],
        "components": {
            "real": ["internal/dnsserver receive paths: UDP, TCP/DoT, DoQ stream, DoH body; syncutil pools", "internal/bindtodevice receive path (pooled datagram bodies of the interface listeners) under the warmed plain-DNS and DoT servers in half of the runs"],
            "stub": ["network (simnet)", "handler (pipeline function)"],
            "sim": "clock: testing/synctest; network: /verif/sim/simnet immediate mode",
        },
    },
    "C08": {
        "parts": [
            {"engine": "wire", "instrument": WIRE_INSTRUMENT, "cfgs": [""], "modreplace": WIRE_MODREPLACE, "share": 3, "chunk": 150},
            # The whole handler stack behind a real plain-DNS server: what the middlewares hand to the response writer.
            {"engine": "sysim", "cfgs": ["servers"], "share": 1, "chunk": 300, "det_trace": False},
        ],
        "det_runs": 12,
        "det_trace": False,
        "quick": {"seconds": 60, "chunk": 150, "runs": 4000, "chunk_ms": 40000, "kill_after": 300},
        "thorough": {"seconds": 1200, "chunk": 400, "kill_after": 600},
        "rule": ("one run = servers with a tape-chosen configured UDP maximum (0, 512, 1232, 4096, 65535) and 2-8 queries whose "
                 "name asks the handler for a response of a given size (0..66000 bytes, dense around 512, 1232, 4096 and 65535; "
                 "with or without an OPT record of the handler's own; records spread over sections), with request EDNS absent or "
                 "UDP size in {0, 300, 511, 512, 513, 1232, 4096, 65535}, DO, padding, keep-alive, NSID, unknown option; every "
                 "query is sent over UDP, TCP, DoT, DoH (HTTP/2 and HTTP/3), DoQ, DNSCrypt/UDP and DNSCrypt/TCP and judged on the bytes received (for "
                 "DNSCrypt: the datagram as received and the message inside it); in a share of the runs (tape-chosen) the plain-DNS and DoT servers listen through the real interface listeners of internal/bindtodevice (channel sizes 1, 4 or 64) on simulated sockets; sysim part: 1-6 concurrent client streams of 3-16 queries each over DoT through the whole handler stack (OPT absent or with size 512/600/1232/4096, padding, keep-alive; names the stub filter rewrites, later requesters getting a copy of the first one's rewritten query; answers of about 1000 octets), each response judged as it arrives; every run is non-trivial; "
                 "distinct = distinct decision-sequence hash"),
        "assumptions": [
            "DNSCrypt runs through a patched copy of ameshkov/dnscrypt v2.3.0 (net.PacketConn instead of *net.UDPConn); a configured maximum of zero (which a configuration cannot have) is not judged on DNSCrypt",
            "KNOWN FINDINGS (dependency interplay, listed in known_findings.json): the DNSCrypt envelope makes UDP datagrams exceed the limit although the message inside fits; the DNSCrypt layer sends UDP responses without name compression after the server truncated counting compression; DNSCrypt/TCP responses between 65472 and 65535 octets are cut by the DNSCrypt layer with TC set and answers kept.  A run that meets one of them goes on and judges the remaining exchanges",
            "network without faults: the dimension explored is response size x EDNS settings x configured maximum",
        ],
        "components": {
            "real": ["internal/dnsserver normalize/truncate, response writers of UDP, TCP, DoT, DoH, DoQ", "miekg/dns Truncate and packing", "internal/bindtodevice session writer under plain DNS and DoT in a third of the runs", "sysim part: dnssvc.NewHandlers stack (initial, rate-limit, pre-service, main, pre-upstream middlewares, ecscache) behind dnsserver.ServerTLS"],
            "stub": ["network (simnet)", "handler (pipeline function with size-by-name responses)"],
            "sim": "clock: testing/synctest; network: /verif/sim/simnet immediate mode",
        },
    },
    "C17": {
        "engine": "fwdsim",
        "instrument": "internal/dnsserver/forward=dial",
        "cfgs": [""],
        # Bursts of concurrent queries are real goroutines: which upstream takes
        # which query of a burst is up to the Go scheduler, so the trace text
        # may differ between processes while the decisions do not.
        "det_trace": False,
        "quick": {"seconds": 30, "chunk": 1500, "runs": 60000},
        "thorough": {"seconds": 900, "chunk": 5000},
        "rule": ("one run = real forward.Handler with 1-3 main and 0-2 fallback UpstreamPlain upstreams (each taking both transports, only UDP or only TCP; 1s "
                 "timeout, backoff 0/1s/10s/1min) dialling scripted servers on the simulated network; 3-30 operations, each "
                 "preceded by tape-chosen state changes of the upstreams (up, silent, refusing, closing after read, wrong ID, "
                 "wrong name, wrong type, two questions, truncated-UDP-then-TCP, garbage, bare header, header counts without "
                 "records, reply cut inside the name or a record, error reply without question, SERVFAIL, NXDOMAIN, duplicated reply, mismatching datagram followed by a closing stream, stray reply that claims truncation) and a clock advance from {0, 0.1s, backoff/2, backoff-1ms, "
                 "backoff, backoff+1ms, 31s}; an operation is a query with a unique name (now and then too large for a datagram buffer, or too large to forward at all), a burst of 2-4 concurrent queries, or a health-check round; after an upstream has answered four exchanges in a row with one good UDP reply each, the next must not need a retry over TCP; every run "
                 "is non-trivial; distinct = distinct decision-sequence hash"),
        "assumptions": [
            "upstream states change between operations, not during one",
            "which active main (and which fallback) is chosen is left free; the upstream-side receive log is the ground truth for who got the query",
            "a probe exactly at lastFailed+backoff may or may not be sent",
            "a TCP-only upstream is never in the refusing state (it could not note what it refuses): it closes after reading instead",
            "the truncated reply of a UDP-only upstream is the answer, unless the upstream's log shows the query also came over TCP (something stale in the socket made the resolver retry there)",
        ],
        "components": {
            "real": ["internal/dnsserver/forward: Handler, healthcheck, UpstreamPlain (UDP, TCP fallback, validation)", "internal/dnsserver/pool (connection pool)"],
            "stub": ["upstream DNS servers (scripted, on simnet)", "net.DialTimeout (overlay dial seam -> simnet)"],
            "sim": "clock: testing/synctest; network: /verif/sim/simnet immediate mode; sequential history",
        },
    },
    "C03": {
        "parts": [
            {"engine": "sysim", "cfgs": [""], "share": 3, "chunk": 2000},
            {"engine": "wire", "instrument": WIRE_INSTRUMENT, "cfgs": ["", "timed"], "modreplace": WIRE_MODREPLACE, "share": 1, "chunk": 100},
        ],
        "det_trace": False,
        "det_runs": 12,
        "quick": {"seconds": 30, "chunk": 2000, "runs": 100000},
        "thorough": {"seconds": 900, "chunk": 8000},
        "rule": 'one run = a universe of 3 profiles (one possibly deleted) and 6 devices (attached/detached; auth off, on with/without password, DoH-only with/without password; linked IPs; dedicated IPs) in the real profile DB, 7 servers (plain DNS with linked IP on/off, plain DNS bound to an interface with dedicated addresses, DoT, DoH, DoQ, DNSCrypt) and 4-40 requests whose identifier travels by URL path, basic-auth user with absent/right/wrong/empty password, TLS server name (exact, upper case, nested label, other domain, bare domain), EDNS CPE-ID, dedicated local address or linked client address - also on the wrong transport and with path and credentials of different devices; human-readable identifiers for existing, unknown and to-be-created devices with automatic devices on/off; server names that merely end with the device domain; now and then the backend changes and the database synchronises (a profile deleted or restored, a device detached, given other authentication settings or moved to another profile); non-trivial = at least one device recognised; distinct = distinct decision-sequence hash.  wire part: real DoT, DoH (HTTP/1.1, HTTP/2 and HTTP/3) and DoQ servers on the simulated network (immediate or timed with segmentation); 4-20 requests with server names, URL paths and basic-auth credentials from small sets, requests with the same transport and server name share a connection (HTTP/2 requests overlap on it); the handler records the request information it is given and every field must equal what the client sent with that request',
        "assumptions": ['the reference (identify) is written from the statement and doc/; a malformed identifier may be answered with an error, the statement only demands that nobody is recognised', 'human-readable identifiers (<type>-<profile>-<name> in the URL path or TLS server name) are generated in normal form only; devices created on demand come from an idempotent backend stub', 'two parts compose: the wire part shows that the encrypted transports hand the handler exactly the server name, URL path and credentials the client sent with that request; the sysim part injects such values into dnsserver.RequestInfo and judges the decision'],
        "components": {
            "real": ["dnssvc.NewHandlers stack: initial, ratelimitmw (request info, device finding, access checks, rate-limit gate), preservice, mainmw (filtering, recording), preupstream, ecscache", "internal/dnssvc/internal/devicefinder", "internal/profiledb.Default (fed once by a stub storage)", "internal/access Global and DefaultProfile", "agdpasswd bcrypt authenticator"],
            "stub": ["transports (requests are injected as the servers would deliver them: server, addresses, TLS server name, URL, userinfo, EDNS)", "upstream, filter (verdict by name prefix), rate limiter (drops by name prefix), query log, billing, rule stats, DNSDB: recording fakes", "GeoIP (address -> ASN table)"],
            "sim": "clock: testing/synctest; sequential request history",
        },
    },
    "C10": {
        "engine": "sysim",
        "instrument": "",
        "cfgs": [""],
        "quick": {"seconds": 30, "chunk": 2000, "runs": 100000},
        "thorough": {"seconds": 900, "chunk": 8000},
        "rule": "same world; client addresses inside/outside the globally blocked subnet, inside a profile's blocked subnet and its allowed sub-range (networks also written with an address inside them instead of their first), with blocked and allowed ASNs; names matching global and per-profile rules (exact, ||domain^, $dnstype=AAAA) and unique harmless names; per-profile access settings drawn per run (blocked/allowed nets, ASN lists with extra systems in tape-chosen order, name rules); after an access-blocked request the same name is asked again by an allowed client and must reach the upstream; non-trivial = at least one access-blocked request; distinct = distinct decision-sequence hash",
        "assumptions": ['the blocked predicate is written from the statement (global IP, global name, then profile: allowed subnet/ASN overrides blocked subnet/ASN, name rules)', 'requests dropped for other reasons (rate limit, unknown dedicated address) are not judged here'],
        "components": {
            "real": ["dnssvc.NewHandlers stack: initial, ratelimitmw (request info, device finding, access checks, rate-limit gate), preservice, mainmw (filtering, recording), preupstream, ecscache", "internal/dnssvc/internal/devicefinder", "internal/profiledb.Default (fed once by a stub storage)", "internal/access Global and DefaultProfile", "agdpasswd bcrypt authenticator"],
            "stub": ["transports (requests are injected as the servers would deliver them: server, addresses, TLS server name, URL, userinfo, EDNS)", "upstream, filter (verdict by name prefix), rate limiter (drops by name prefix), query log, billing, rule stats, DNSDB: recording fakes", "GeoIP (address -> ASN table)"],
            "sim": "clock: testing/synctest; sequential request history",
        },
    },
    "C15": {
        "parts": [
            {"engine": "sysim", "cfgs": [""], "share": 2, "chunk": 2000},
            {"engine": "qlogsim", "instrument": "internal/querylog=calls:os\\.OpenFile|WriteTo|\\.Write(String|Byte|Rune)?$|f\\.Close|Encode|Marshal|Fprint", "cfgs": ["", "sequential"], "share": 1, "chunk": 1500},
        ],
        "quick": {"seconds": 30, "chunk": 2000, "runs": 100000},
        "thorough": {"seconds": 900, "chunk": 8000},
        "rule": "same world with profiles' query-log and IP-log flags drawn per run; upstream answers NOERROR, NXDOMAIN, SERVFAIL, REFUSED, BADVERS or BADCOOKIE; outcomes: allowed, blocked by a request rule, blocked by a response rule, dropped by the rate limiter, access-blocked, unknown dedicated address, anonymous; recording query log and billing recorder; non-trivial = at least one attributed request; distinct = distinct decision-sequence hash",
        "assumptions": ['intact single-line JSON records under concurrent writers are checked by the qlogsim part on the real querylog.FileSystem', 'entry fields compared: name, type, rcode, request/response rule, protocol, device, profile, client address'],
        "components": {
            "real": ["dnssvc.NewHandlers stack: initial, ratelimitmw (request info, device finding, access checks, rate-limit gate), preservice, mainmw (filtering, recording), preupstream, ecscache", "internal/dnssvc/internal/devicefinder", "internal/profiledb.Default (fed once by a stub storage)", "internal/access Global and DefaultProfile", "agdpasswd bcrypt authenticator"],
            "stub": ["transports (requests are injected as the servers would deliver them: server, addresses, TLS server name, URL, userinfo, EDNS)", "upstream, filter (verdict by name prefix), rate limiter (drops by name prefix), query log, billing, rule stats, DNSDB: recording fakes", "GeoIP (address -> ASN table)"],
            "sim": "clock: testing/synctest; sequential request history",
        },
    },
    "C13": {
        "engine": "fltsim",
        "instrument": "internal/filter/internal/refreshable=calls:renameio\\.|os\\.Chtimes|io\\.Copy|CloseAtomicallyReplace|tmpFile\\.Cleanup",
        "modreplace": {"github.com/google/renameio/v2@v2.0.0": ".=calls:^t\\.Sync$|os\\.Rename|CloseAtomicallyReplace"},
        "cfgs": ["", "single", "nofault"],
        "quick": {"seconds": 45, "chunk": 400, "runs": 12000},
        "thorough": {"seconds": 1200, "chunk": 1500},
        "level": "exploration",
        "rule": ("one run = real filter storage (1-3 rule lists from an index with a sprinkling of invalid entries - empty or foreign-scheme URLs, bad keys, duplicates, records lacking a field altogether at any position; keys only invalid records carry must name no list -, blocked-service "
                 "index, three hash-prefix filters) downloading version r of every resource in round r = 1..5 from the simulated "
                 "origin; per download a fault from {connection error, stall past the timeout, 404, 500, empty body, body over the "
                 "size limit, body cut after k bytes, slow body in chunks, the whole resource followed by a line of 70000 octets (over every "
                 "size limit but the hash lists', which fail to parse it)}: sub-batch '' = random fault sequences (1 in 3 downloads), "
                 "'single' = exactly one fault at a tape-chosen download of an otherwise clean history, 'nofault' = none; version r "
                 "of a list consists of marker entries, so which version a component serves, and whether completely, is observable "
                 "through verdicts; crash images of the cache directory at every body chunk and at the yields around temp-file write, "
                 "sync, rename and chtimes, each restarted with the origin down; every run non-trivial; distinct = distinct decision hash"),
        "assumptions": [
            "crash images model a killed process (completed system calls survive); no torn or lost writes",
            "safe-search lists are switched off in this world",
            "expected versions after a round are written from the statement: a failed download keeps the previous complete version, other lists serve the previous or the new complete version, nothing is ever partial or mixed",
        ],
        "components": {
            "real": ["internal/filter/filterstorage.Default (refresh, index handling, ForConfig)", "internal/filter/internal/rulelist, refreshable, serviceblock, custom, composite", "internal/filter/hashprefix (Storage, Matcher, Filter)", "AdguardTeam/urlfilter engine", "agdhttp client", "real cache files in a per-run scratch directory", "github.com/google/renameio/v2 (instrumented copy)"],
            "stub": ["HTTP origin (simhttp installed as http.DefaultTransport: versioned resources, fault per download)", "clock (synctest)"],
            "sim": REAL_COMMON,
        },
    },
    "C11": {
        "engine": "fltsim",
        "instrument": "internal/filter/hashprefix=calls:hashSuffixes\\.Load|loadHashSuffixes|hashSuffixes\\.Store",
        "cfgs": ["", "conc"],
        "quick": {"seconds": 30, "chunk": 800, "runs": 30000},
        "thorough": {"seconds": 900, "chunk": 3000},
        "rule": ("one run = three real hash-prefix filters whose lists (names over a 24-name universe with parents, children, "
                 "public-suffix neighbours such as co.uk and blogspot.com, five- and six-label names; comments, blank lines, "
                 "duplicates, CRLF) are reset 1-4 times through the simulated origin, some resets failing and keeping the previous "
                 "list; between resets 3-25 queries: A/AAAA/HTTPS/MX/CNAME for names around every cut-off through the real handler "
                 "stack, and TXT hash-prefix queries with 4- and 8-character prefixes, duplicates, upper case, bad lengths and "
                 "non-hex, and TXT names that merely contain a safe-browsing suffix or end with something like it (these must be "
                 "resolved upstream); non-trivial = a listed host or a hash hit occurred; distinct = distinct decision hash"),
        "assumptions": [
            "the model reads 'up to four labels' as the last four labels of the name including the public suffix's own labels, minus the ICANN public suffix and everything above it",
            "hashes are compared as sets (a name listed twice yields its hash twice)",
        ],
        "components": {
            "real": ["internal/filter/filterstorage.Default (refresh, index handling, ForConfig)", "internal/filter/internal/rulelist, refreshable, serviceblock, custom, composite", "internal/filter/hashprefix (Storage, Matcher, Filter)", "AdguardTeam/urlfilter engine", "agdhttp client", "real cache files in a per-run scratch directory", "github.com/google/renameio/v2 (instrumented copy)"],
            "stub": ["HTTP origin (simhttp installed as http.DefaultTransport: versioned resources, fault per download)", "clock (synctest)"],
            "sim": REAL_COMMON,
        },
    },
    "C12": {
        "engine": "fltsim",
        "instrument": "internal/filter/internal/rulelist=locks,calls:cache\\.(Get|Set|Clear);internal/filter/hashprefix=locks,calls:resCache\\.|hashes\\.(Matches|Reset);internal/filter/filterstorage=locks",
        "cfgs": ["conc", "", "conc", "replip", "conc", "concq"],
        "quick": {"seconds": 60, "chunk": 500, "runs": 16000},
        "thorough": {"seconds": 1200, "chunk": 2000},
        "rule": ("one run = storage A (all result caches on) and a stateless twin B (caches off or emptied before every request) "
                 "loading the same list versions; 2-4 requesters with different blocking modes (null IP, custom IP, NXDOMAIN, "
                 "REFUSED), filtered TTLs, rule-list subsets, custom rules, blocked services, safe-browsing/parental switches "
                 "asking the same (host, qtype) keys in every order (types A, AAAA, HTTPS, TXT, MX, CAA and the types above 255 that share the low octet of the first three), interleaved with list refreshes that change verdicts and "
                 "custom-rule updates whose time stamp moves by a minute, 300 ms or 1 ns; sub-batch 'replip' = hash-prefix filters answering with an IP address (response built with "
                 "the requester's own message constructor); sub-batch 'conc' = a refresher task and 1-3 query tasks with yields "
                 "before every lock and every result-cache get/set/clear inside rulelist, hashprefix and filterstorage; "
                 "non-trivial = a request was filtered; distinct = distinct decision hash"),
        "assumptions": [
            "rule lists carry no client-specific modifiers ($client, $ctag), as the statement presumes",
            "custom rules change together with a newer UpdateTime, as the backend sends them",
            "in the concurrent sub-batch a request overlapping a refresh may see the old or the new version",
        ],
        "components": {
            "real": ["internal/filter/filterstorage.Default (refresh, index handling, ForConfig)", "internal/filter/internal/rulelist, refreshable, serviceblock, custom, composite", "internal/filter/hashprefix (Storage, Matcher, Filter)", "AdguardTeam/urlfilter engine", "agdhttp client", "real cache files in a per-run scratch directory", "github.com/google/renameio/v2 (instrumented copy)"],
            "stub": ["HTTP origin (simhttp installed as http.DefaultTransport: versioned resources, fault per download)", "clock (synctest)"],
            "sim": REAL_COMMON,
        },
    },
    "C07": {
        "parts": [
            {"engine": "clonersim", "cfgs": ["", "nowire"], "share": 1, "chunk": 3000},
            {"engine": "sysim", "cfgs": ["", "servers", "sequential", "servers"], "share": 2, "chunk": 300,
             # Yields inside the ECS cache: after an item was taken from the cache, before it is cloned, before an
             # item is stored or a message released.  At a yield a stream sleeps one simulated nanosecond, so every
             # other stream that can run does so first.
             "instrument": "internal/ecscache=callsafter:cache\\.Get,calls:cloner\\.Clone|SetWithExpire|Dispose"},
            {"engine": "wire", "instrument": WIRE_INSTRUMENT, "cfgs": [""], "modreplace": WIRE_MODREPLACE, "share": 1, "chunk": 100},
            # Requesters of several profiles asking the same hosts at the same time through the real filter storage.
            {"engine": "fltsim", "cfgs": ["concq"], "share": 1, "chunk": 300,
             "instrument": "internal/filter/internal/rulelist=locks,calls:cache\\.(Get|Set|Clear);internal/filter/hashprefix=locks,calls:resCache\\.|hashes\\.(Matches|Reset);internal/filter/filterstorage=locks"},
        ],
        "det_trace": False,
        "quick": {"seconds": 30, "chunk": 3000, "runs": 200000},
        "thorough": {"seconds": 900, "chunk": 10000},
        "rule": ("clonersim part: one run = 4-40 operations over a set of live messages with the production cloner: create a message "
                 "(A, AAAA, CNAME, MX, PTR, SRV, TXT, NS, SOA, HTTPS with alpn/no-default-alpn/port/ipv4hint 1-8/ech/ipv6hint/dohpath, "
                 "OPT with cookie/EDE/subnet/NSID), half of them round-tripped through the wire as an upstream reply is; clone a live "
                 "message; dispose a clone or a wire message; overwrite a live message in place; after every operation every live "
                 "message must equal its snapshot.  sysim part: one run = 1-6 concurrent client streams x 3-16 requests (anonymous or "
                 "one of 3 profiles with different blocking modes and filtered TTLs; allowed, request-blocked, response-blocked, "
                 "rewritten, shared cacheable and unique names; A/AAAA/HTTPS/TXT; CHAOS debug queries) through one full stack with the "
                 "production cloner as cloner and disposer and the ECS cache, the upstream holding requests for 0-50ms of simulated "
                 "time and answering with wire-unpacked messages; every response is compared with the same request served alone in a "
                 "freshly built stack.  wire part: the real servers of every transport (plain DNS, DoT, DoH over HTTP/1.1, 2 and 3 "
                 "with wire and JSON formats, DoQ) with a disposer that overwrites every response a server has finished with, as the "
                 "cloner's pools will; 4-24 queries sent concurrently over every transport with a handler that takes 0-900 ms; every "
                 "response must be the pipeline function's answer to its own query; fltsim part: 2-3 tasks of 2-10 queries each by 2-4 requesters "
                 "(two of them sharing the first rule list and a blocked service but not the second list) for hosts that several rules of "
                 "several lists match, through the real filter storage with its result caches, the kernel scheduler switching at cache "
                 "accesses; each verdict equals the stateless twin's for the same requester alone; every run non-trivial; distinct = distinct decision hash"),
        "assumptions": [
            "in the sysim part the interleaving of the streams is produced by simulated upstream delays, by yields inserted into the ECS cache (after an item is taken from the cache, before it is cloned, before an item is stored; a stream that yields sleeps one simulated nanosecond, so that every other stream that can run does so first) and by the Go scheduler; every random choice is private to a stream, so decisions replay while goroutine order may differ; sync.Pool is emptied before each run and the collector is off during it, so that what the pools hand out is a function of the run; a failure that still does not replay alone is replayed together with the runs its worker process had made before it",
            "TTLs of resolved answers may be smaller than in the reference (aged in the cache), never larger; filtered answers must carry the requester's own TTL",
            "request IDs and elapsed times inside CHAOS debug records are not compared",
        ],
        "components": {
            "real": ["internal/dnsmsg Cloner (message, HTTPS/SVCB, OPT cloners, Dispose)", "dnssvc.NewHandlers stack with pooled request and filtering contexts, ecscache, real profiledb and device finder (sysim part)", "wire part: internal/dnsserver servers of every transport and their use of the Disposer (serverbase.go)", "fltsim part: internal/filter/filterstorage.Default, composite filter, rule lists with their result caches, blocked services, AdguardTeam/urlfilter engine"],
            "stub": ["filter (verdict by name prefix, builds rewritten answers with the requester's constructor)", "upstream (answers from the wire, random simulated delay)", "transports (requests injected, response released to the cloner after write as the plain-DNS servers do)"],
            "sim": "clock: testing/synctest; private generators per stream",
        },
    },
}

# What the generators gained after the rule texts above were written (waves
# twelve to fifteen of the seeded changes, see DESIGN.md section 8).
RULE_MORE = {
    "C03": "devices with one of two passwords, password changes followed by requests with the old and the new one; IPv4 client addresses arriving in 16 octets and as UDP addresses; human-readable names that are not in normal form",
    "C04": "referrals and alias chains that stop short (no SOA); answers whose scope is longer than the source prefix; the reserved EDNS flags of cached answers that keep their OPT record; a subnet-dependent name under a domain of the resolver's fixed list",
    "C05": "answers whose scope is longer than the source prefix; a subnet-dependent name under a domain of the resolver's fixed list; geofile: pairs of clients of different countries whose addresses are close",
    "C06": "probes and part of the history over DoH GET with line breaks in the parameter; a length prefix arriving in two pieces with another connection's message in between; fwdsim: negative answers that arrive twice, runs in which every query has ID 0, upstreams limited to one transport, upstreams that close a stream after one reply",
    "C07": "the filter stub hands later requesters of a rewrite a copy of the first one's rewritten query with an ID of its own; every response ID is compared with its request's; fltsim part: two requesters as devices of one profile with a custom rule for one of them",
    "C09": "responses whose bulk is in the authority or additional section",
    "C10": "networks written with an address inside them; CHAOS-class questions for names access rules know; IPv4 client addresses arriving in 16 octets",
    "C11": "lists with a line over 64 KiB after a good list",
    "C12": "requesters differing in CD, OPT and DO; two requesters as devices of one profile with a $client rule; versions of lists without any rule and a name every safe-search version rewrites; a rule switched off by a $badfilter rule of another list",
    "C13": "bodies of white space only for the JSON indexes; null among the index records",
    "C14": "all 32 combinations of access settings, networks written with an address inside them; looked-up profiles are asked about a request before they are stored again",
    "C15": "upstream answers REFUSED, BADVERS and BADCOOKIE",
    "C16": "gRPC part: calls the backend ends with OK and without a response message; a batch the backend accepted in full must not be reported as failed",
    "C17": "upstreams limited to one transport, upstreams that close a stream after one reply, negative answers that arrive twice, runs in which every query has ID 0",
    "C18": "pipeline part: a quick query on a connection of its own beside a busy one; a connection that goes away with its queries in flight before the burst",
}
for _pid, _more in RULE_MORE.items():
    PROPS[_pid]["rule"] += "; also: " + _more
