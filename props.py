"""Per-property configuration of the checks: engine, instrumentation spec,
sub-batches, budgets, and the descriptive fields of the evidence files."""

REAL_COMMON = "clock: testing/synctest fake clock; scheduler: /verif/sim/kernel (choice tape, one decision at a time)"

PROPS = {
    "C16": {
        "engine": "billsim",
        "instrument": "internal/billstat=locks",
        "cfgs": ["", "nofault"],
        "quick": {"seconds": 25, "chunk": 4000, "runs": 400000},
        "thorough": {"seconds": 600, "chunk": 20000},
        "rule": ("one run = tape-generated workload (1-4 recorder tasks x 1-10 Record calls over 1-4 devices, "
                 "1-2 refresher tasks x 1-4 Refresh calls, upload outcome per attempt) executed under a "
                 "tape-chosen interleaving with yields before every Record/Refresh, before every mutex "
                 "acquisition inside billstat and while each Upload is in flight; a run is non-trivial when "
                 "the scheduler preempted a runnable task at least once or an upload failure fired; distinct "
                 "= distinct hash of the full decision sequence (workload + schedule + faults)"),
        "assumptions": [
            "the scheduler switches tasks only at inserted yields (harness yields, mutex acquisitions in billstat, in-flight Upload); data races inside a critical section are not explored",
            "process-kill/disk faults do not apply: the recorder is in-memory by design",
            "the recency clause of the metadata oracle is applied only to runs in which Refresh calls did not overlap (production runs one refresh worker)",
        ],
        "components": {
            "real": ["internal/billstat.RuntimeRecorder (Record, Refresh, resetRecords, remergeRecords)"],
            "stub": ["billstat.Uploader (simulated: parks in flight, tape-chosen success/failure)", "errcoll, metrics (no-op)"],
            "sim": REAL_COMMON,
        },
    },
    "C18": {
        "engine": "connsim",
        "instrument": "internal/connlimiter=locks,cond",
        "cfgs": ["", "multi"],
        "quick": {"seconds": 25, "chunk": 4000, "runs": 300000},
        "thorough": {"seconds": 600, "chunk": 20000},
        "rule": ("one run = limiter with tape-chosen stop in 1..5 and resume in 0..stop over 1-3 simulated "
                 "listeners; tasks: one accept loop per listener, a dialer (1-10 clients), 1-2 closers (close, "
                 "double close, close of the same connection from two tasks), optionally a listener closer "
                 "(close, double close); yields before every mutex acquisition and at every cond wait/signal "
                 "inside connlimiter; non-trivial = the scheduler preempted a runnable task or a listener was "
                 "closed; distinct = distinct hash of the decision sequence"),
        "assumptions": [
            "the reference hysteresis (count, accepting) is driven by events the harness observes in the same scheduler step in which the limiter changes its counter (there is no yield between the counter update and the observation)",
            "pipeline limiting (second half of C18) is checked by the wire engine sub-batch, not here",
            "bounded liveness is asserted only at quiescence after dialer, closers and listener closer have finished",
        ],
        "components": {
            "real": ["internal/connlimiter (Limiter, limitListener, limitConn, counter)"],
            "stub": ["net.Listener / net.Conn below the limiter (simulated)", "prometheus metrics (real registry, unobserved)"],
            "sim": REAL_COMMON,
        },
    },
}
