// Package simhttp is the simulated HTTP origin: an http.RoundTripper that is
// installed as http.DefaultTransport in the harness process, so that every
// download of the filtering code (agdhttp.Client builds an http.Client with a
// nil transport) is served from memory with a fault chosen per request.
package simhttp

import (
	"bytes"
	"errors"
	"fmt"
	"io"
	"net"
	"net/http"
	"sync"
)

// Fault is what happens to one download.
type Fault int

// Fault kinds.
const (
	OK Fault = iota
	ConnError
	Stall
	NotFound
	ServerError
	EmptyBody
	Oversized
	CutBody
	SlowBody
	LongLine
	OtherSuccess
	Blank
	numFaults
)

// Names of the fault kinds.
var Names = [...]string{"ok", "conn-error", "stall", "404", "500", "empty-body", "oversized", "cut-body", "slow-body", "long-line", "other-2xx", "blank-body"}

// Origin serves resources by URL path.
type Origin struct {
	mu        sync.Mutex
	resources map[string]string
	// Decide chooses the fault (and a parameter) for a request to path.
	Decide func(path string) (f Fault, param int)
	// NoLength, if set, decides whether a 200 response to path is sent without
	// an announced length (chunked or close-delimited transfer).
	NoLength func(path string) (ok bool)
	// OnChunk, if set, is called between the chunks of a slow body.
	OnChunk func(path string)
	// Log of requests served: "path fault".
	Requests []string
}

// NewOrigin returns an origin without resources.
func NewOrigin() (o *Origin) { return &Origin{resources: map[string]string{}} }

// Set sets the content of a resource.
func (o *Origin) Set(path, content string) {
	o.mu.Lock()
	o.resources[path] = content
	o.mu.Unlock()
}

type timeoutErr struct{}

func (timeoutErr) Error() string   { return "simhttp: i/o timeout" }
func (timeoutErr) Timeout() bool   { return true }
func (timeoutErr) Temporary() bool { return true }

// RoundTrip implements the http.RoundTripper interface for *Origin.
func (o *Origin) RoundTrip(req *http.Request) (resp *http.Response, err error) {
	path := req.URL.Path
	f, param := OK, 0
	if o.Decide != nil {
		f, param = o.Decide(path)
	}

	o.mu.Lock()
	content, ok := o.resources[path]
	o.Requests = append(o.Requests, path+" "+Names[f])
	o.mu.Unlock()

	noLen := f != ConnError && f != Stall && f != NotFound && f != ServerError && f != OtherSuccess && o.NoLength != nil && o.NoLength(path)
	mk := func(code int, body io.ReadCloser, n int64) *http.Response {
		if noLen {
			n = -1
		}

		return &http.Response{
			Status:        fmt.Sprintf("%d %s", code, http.StatusText(code)),
			StatusCode:    code,
			Proto:         "HTTP/1.1",
			ProtoMajor:    1,
			ProtoMinor:    1,
			Header:        http.Header{"Server": {"simhttp"}},
			Body:          body,
			ContentLength: n,
			Request:       req,
		}
	}
	plain := func(s string) io.ReadCloser { return io.NopCloser(bytes.NewReader([]byte(s))) }

	if !ok && f == OK {
		f = NotFound
	}

	switch f {
	case ConnError:
		return nil, &net.OpError{Op: "dial", Net: "tcp", Err: errors.New("connection refused")}
	case Stall:
		<-req.Context().Done()

		return nil, &net.OpError{Op: "read", Net: "tcp", Err: timeoutErr{}}
	case NotFound:
		return mk(http.StatusNotFound, plain("not found"), -1), nil
	case ServerError:
		return mk(http.StatusInternalServerError, plain("oops"), -1), nil
	case EmptyBody:
		return mk(http.StatusOK, plain(""), 0), nil
	case Oversized:
		big := content + "\n" + string(bytes.Repeat([]byte("# padding padding padding padding\n"), param/34+1))

		return mk(http.StatusOK, plain(big), int64(len(big))), nil
	case CutBody:
		k := 0
		if len(content) > 0 {
			k = param % len(content)
		}

		return mk(http.StatusOK, &cutReader{data: []byte(content[:k])}, int64(len(content))), nil
	case OtherSuccess:
		// A status of the success class that is not 200, with a body that is
		// not the resource: a part of it (206), a proxy's version (203), a
		// placeholder (202).
		code := []int{http.StatusPartialContent, http.StatusNonAuthoritativeInfo, http.StatusAccepted}[param%3]
		body := content[:len(content)/2]
		if code == http.StatusAccepted {
			body = "accepted, come back later\n"
		}

		return mk(code, plain(body), int64(len(body))), nil
	case Blank:
		// Nothing but white space: not an empty body, and no document.
		return mk(http.StatusOK, plain("\n"), 1), nil
	case LongLine:
		// The whole resource followed by one line of param octets, as a
		// minified error page or a broken export has them.
		return mk(http.StatusOK, plain(LongLineBody(content, param)), int64(len(content)+param+2)), nil
	case SlowBody:
		return mk(http.StatusOK, &slowReader{o: o, path: path, data: []byte(content), chunk: 1 + param%64}, int64(len(content))), nil
	}

	return mk(http.StatusOK, plain(content), int64(len(content))), nil
}

// LongLineBody is the body of a LongLine response.
func LongLineBody(content string, n int) (body string) {
	return content + "\n" + string(bytes.Repeat([]byte("x"), n)) + "\n"
}

// cutReader delivers its data and then fails like a connection that was cut.
type cutReader struct {
	data []byte
}

func (r *cutReader) Read(b []byte) (n int, err error) {
	if len(r.data) == 0 {
		return 0, io.ErrUnexpectedEOF
	}
	n = copy(b, r.data)
	r.data = r.data[n:]

	return n, nil
}

func (r *cutReader) Close() error { return nil }

// slowReader delivers its data in small chunks; each chunk boundary is a
// point at which the simulator may look at the disk.
type slowReader struct {
	o     *Origin
	path  string
	data  []byte
	chunk int
}

func (r *slowReader) Read(b []byte) (n int, err error) {
	if len(r.data) == 0 {
		return 0, io.EOF
	}
	if r.o.OnChunk != nil {
		r.o.OnChunk(r.path)
	}
	k := r.chunk
	if k > len(r.data) {
		k = len(r.data)
	}
	n = copy(b, r.data[:k])
	r.data = r.data[n:]

	return n, nil
}

func (r *slowReader) Close() error { return nil }
