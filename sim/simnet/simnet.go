// Package simnet is the simulated network: an implementation of the
// repository's own netext.ListenConfig seam whose stream connections and
// datagrams live in memory.  Bytes written to a stream and datagrams sent are
// "in flight" until the simulation kernel fires their delivery event; the
// choice tape decides when, how many bytes of a stream are delivered at once
// (down to single bytes, so length prefixes are split), and whether a
// datagram is dropped or duplicated.  Everything blocks on channels created
// inside the bubble, so the fake clock advances past read deadlines.
package simnet

import (
	"context"
	"encoding/binary"
	"errors"
	"fmt"
	"hash/fnv"
	"io"
	"math/rand/v2"
	"net"
	"net/netip"
	"os"
	"sync"
	"time"

	"github.com/AdguardTeam/AdGuardDNS/verif/kernel"
)

// Faults selects what the network does to traffic.
type Faults struct {
	// Segment delivers stream bytes in tape-chosen pieces.
	Segment bool

	// DropDen, if non-zero, drops a datagram with probability 1/DropDen.
	DropDen int

	// DupDen, if non-zero, duplicates a datagram with probability 1/DupDen.
	DupDen int

	// Events makes deliveries scheduler events (chosen by the tape among
	// everything else that is enabled).
	Events bool

	// Timed makes the network a discrete-event one: every stream segment and
	// datagram gets a latency drawn from a generator private to its flow
	// (seeded from Seed and the flow's addresses), so that what happens to a
	// flow does not depend on how goroutines of other flows interleave.
	// Segment, DropDen and DupDen are then decided by the same private
	// generator.
	Timed bool

	// Seed seeds the private generators of Timed mode.
	Seed uint64
}

// Net is one simulated network.
type Net struct {
	S      *kernel.Sim
	Faults Faults

	mu        sync.Mutex
	listeners map[string]*Listener
	packets   map[string]*PacketConn
	nextPort  map[netip.Addr]uint16
	connSeq   int
	dgramSeq  int
	flows     map[string]*flow

	// instants are the delivery times taken in Timed mode.
	instMu   sync.Mutex
	instants map[int64]struct{}

	// Stats of what was actually injected.
	Segments, Drops, Dups int
}

// New returns a network driven by s.
func New(s *kernel.Sim) (n *Net) {
	return &Net{
		S:         s,
		listeners: map[string]*Listener{},
		packets:   map[string]*PacketConn{},
		nextPort:  map[netip.Addr]uint16{},
		flows:     map[string]*flow{},
	}
}

func normAddr(address string) (ap netip.AddrPort, err error) {
	ap, err = netip.ParseAddrPort(address)
	if err != nil {
		return netip.AddrPort{}, fmt.Errorf("simnet: bad address %q: %w", address, err)
	}

	return ap, nil
}

// Listen implements the netext.ListenConfig interface for *Net.
func (n *Net) Listen(_ context.Context, _, address string) (l net.Listener, err error) {
	ap, err := normAddr(address)
	if err != nil {
		return nil, err
	}

	n.mu.Lock()
	defer n.mu.Unlock()

	if _, ok := n.listeners[ap.String()]; ok {
		return nil, fmt.Errorf("simnet: listen %s: address already in use", ap)
	}

	sl := &Listener{n: n, addr: ap, queue: make(chan *Conn, 256), closed: make(chan struct{})}
	n.listeners[ap.String()] = sl

	return sl, nil
}

// ListenPacket implements the netext.ListenConfig interface for *Net.
func (n *Net) ListenPacket(_ context.Context, _, address string) (c net.PacketConn, err error) {
	ap, err := normAddr(address)
	if err != nil {
		return nil, err
	}

	return n.bindPacket(ap)
}

func (n *Net) bindPacket(ap netip.AddrPort) (pc *PacketConn, err error) {
	n.mu.Lock()
	defer n.mu.Unlock()

	if _, ok := n.packets[ap.String()]; ok {
		return nil, fmt.Errorf("simnet: listen packet %s: address already in use", ap)
	}

	pc = &PacketConn{n: n, addr: ap, wake: make(chan struct{}, 1), closedCh: make(chan struct{})}
	n.packets[ap.String()] = pc

	return pc, nil
}

// ClientAddr returns a fresh client address on ip.
func (n *Net) ClientAddr(ip netip.Addr) (ap netip.AddrPort) {
	n.mu.Lock()
	defer n.mu.Unlock()

	// Ports are counted per address, so that a client's ports do not depend
	// on what other clients do.
	n.nextPort[ip]++

	return netip.AddrPortFrom(ip, 20000+n.nextPort[ip])
}

// DialPacket binds a client datagram socket at local.
func (n *Net) DialPacket(local netip.AddrPort) (pc *PacketConn, err error) {
	return n.bindPacket(local)
}

// Dial opens a stream connection from local to address.
func (n *Net) Dial(address string, local netip.AddrPort) (c *Conn, err error) {
	ap, err := normAddr(address)
	if err != nil {
		return nil, err
	}

	n.mu.Lock()
	l, ok := n.listeners[ap.String()]
	if !ok {
		// A listener bound to the unspecified address takes connections to
		// every address on its port.
		l, ok = n.listeners[wildcard(ap).String()]
	}
	n.connSeq++
	id := n.connSeq
	n.mu.Unlock()

	if !ok {
		return nil, &net.OpError{Op: "dial", Net: "tcp", Err: errors.New("connection refused")}
	}

	c2s := newHalf(n, fmt.Sprintf("%s>%s", local, ap))
	s2c := newHalf(n, fmt.Sprintf("%s>%s", ap, local))
	cl := &Conn{n: n, id: id, rd: s2c, wr: c2s, local: local, remote: ap}
	sv := &Conn{n: n, id: id, rd: c2s, wr: s2c, local: ap, remote: local}

	select {
	case <-l.closed:
		return nil, &net.OpError{Op: "dial", Net: "tcp", Err: errors.New("connection refused")}
	case l.queue <- sv:
	}

	return cl, nil
}

// ---- stream ----

// Listener is a simulated stream listener.
type Listener struct {
	n      *Net
	addr   netip.AddrPort
	queue  chan *Conn
	closed chan struct{}
	once   sync.Once
}

// Accept implements the net.Listener interface for *Listener.
func (l *Listener) Accept() (c net.Conn, err error) {
	select {
	case <-l.closed:
		return nil, &net.OpError{Op: "accept", Net: "tcp", Err: net.ErrClosed}
	default:
	}

	select {
	case <-l.closed:
		return nil, &net.OpError{Op: "accept", Net: "tcp", Err: net.ErrClosed}
	case sc := <-l.queue:
		return sc, nil
	}
}

// Close implements the net.Listener interface for *Listener.
func (l *Listener) Close() (err error) {
	l.once.Do(func() {
		close(l.closed)
		l.n.mu.Lock()
		delete(l.n.listeners, l.addr.String())
		l.n.mu.Unlock()
	})

	return nil
}

// Addr implements the net.Listener interface for *Listener.
func (l *Listener) Addr() (a net.Addr) { return net.TCPAddrFromAddrPort(l.addr) }

// half is one direction of a stream.
type half struct {
	n        *Net
	name     string
	mu       sync.Mutex
	inflight []byte
	buf      []byte
	fin      bool // writer closed; takes effect after in-flight bytes
	finDone  bool
	rst      bool
	posted   bool
	wake     chan struct{}

	// Delivered is the number of bytes handed to the reader side so far.
	delivered int

	// Timed mode: private generator, and the time the last scheduled segment
	// arrives (segments of one stream arrive in order).
	rng     *rand.Rand
	arrival time.Time
	pending int

	// whole makes every write arrive as one segment.
	whole bool
}

func newHalf(n *Net, name string) (h *half) {
	h = &half{n: n, name: name, wake: make(chan struct{}, 1)}
	if n.Faults.Timed {
		h.rng = n.flowRand("stream " + name)
	}

	return h
}

// instant returns the first instant not before at, and after now, at which
// nothing else is delivered on this network.
func (n *Net) instant(at time.Time) (free time.Time) {
	n.instMu.Lock()
	defer n.instMu.Unlock()

	if n.instants == nil {
		n.instants = map[int64]struct{}{}
	}

	if now := time.Now(); !at.After(now) {
		at = now.Add(time.Microsecond)
	}

	for {
		_, used := n.instants[at.UnixNano()]
		if !used {
			break
		}
		at = at.Add(time.Nanosecond)
	}
	n.instants[at.UnixNano()] = struct{}{}

	return at
}

// flowRand returns the private generator of a flow.
func (n *Net) flowRand(name string) (r *rand.Rand) {
	hs := fnv.New64a()
	_, _ = hs.Write([]byte(name))

	return rand.New(rand.NewPCG(n.Faults.Seed, hs.Sum64()))
}

var latencies = []time.Duration{0, 0, time.Millisecond, 5 * time.Millisecond, 40 * time.Millisecond, 300 * time.Millisecond}

// scheduleTimed cuts what was just written into segments and lets each arrive
// after its own latency, in order.
func (h *half) scheduleTimed(k int) {
	// Called with h.mu held; k bytes were appended to inflight.
	for k > 0 {
		seg := k
		if h.n.Faults.Segment && k > 1 && !h.whole {
			switch h.rng.IntN(5) {
			case 1:
				seg = 1
			case 2:
				seg = 2
			case 3:
				seg = 1 + h.rng.IntN(k)
			case 4:
				seg = k - 1
			}
			if seg < k {
				h.n.S.Fault("stream-segmented")
			}
		}
		k -= seg

		// Every delivery has an instant of its own, and the segments of one
		// stream arrive at strictly increasing ones: the fake clock advances
		// only when every goroutine is blocked, so what a reader sees of a
		// segmented message does not depend on the Go scheduler.
		at := time.Now().Add(latencies[h.rng.IntN(len(latencies))])
		if !at.After(h.arrival) {
			at = h.arrival.Add(time.Microsecond)
		}
		at = h.n.instant(at)
		h.arrival = at
		h.pending++
		n := seg
		time.AfterFunc(time.Until(at), func() {
			h.mu.Lock()
			if len(h.inflight) < n {
				n = len(h.inflight)
			}
			h.deliverLocked(n)
			h.pending--
			if h.pending == 0 && h.fin {
				h.finDone = true
			}
			h.mu.Unlock()
			h.poke()
		})
	}
}

func (h *half) poke() {
	select {
	case h.wake <- struct{}{}:
	default:
	}
}

// deliverLocked moves k in-flight bytes to the reader.
func (h *half) deliverLocked(k int) {
	h.buf = append(h.buf, h.inflight[:k]...)
	h.inflight = h.inflight[k:]
	h.delivered += k
	if len(h.inflight) == 0 && h.fin {
		h.finDone = true
	}
}

func (h *half) schedule() {
	// Called with h.mu held.
	if h.n.Faults.Timed {
		return
	}

	if !h.n.Faults.Events {
		h.deliverLocked(len(h.inflight))
		if h.fin {
			h.finDone = true
		}
		h.poke()

		return
	}

	if h.posted {
		return
	}

	h.posted = true
	h.n.S.Post("net "+h.name, h.fire)
}

func (h *half) fire() {
	h.mu.Lock()
	defer h.mu.Unlock()

	h.posted = false
	total := len(h.inflight)
	k := total
	if h.n.Faults.Segment && total > 1 {
		switch h.n.S.T.Choose(5, "segment") {
		case 0:
		case 1:
			k = 1
		case 2:
			k = 2
		case 3:
			k = 1 + h.n.S.T.Choose(total, "segment-len")
		case 4:
			k = total - 1
		}
		if k > total {
			k = total
		}
		if k < total {
			h.n.Segments++
			h.n.S.Fault("stream-segmented")
		}
	}

	h.deliverLocked(k)
	if len(h.inflight) == 0 && h.fin {
		h.finDone = true
	}
	if len(h.inflight) > 0 {
		h.posted = true
		h.n.S.Post("net "+h.name, h.fire)
	}
	h.poke()
}

// Conn is one end of a simulated stream connection.
type Conn struct {
	n             *Net
	id            int
	rd, wr        *half
	local, remote netip.AddrPort

	dmu        sync.Mutex
	rdeadline  time.Time
	wdeadline  time.Time
	closed     bool
	closedOnce sync.Once
}

type timeoutError struct{}

func (timeoutError) Error() string   { return "i/o timeout" }
func (timeoutError) Timeout() bool   { return true }
func (timeoutError) Temporary() bool { return true }
func (timeoutError) Unwrap() error   { return os.ErrDeadlineExceeded }

func (c *Conn) opErr(op string, err error) (e error) {
	return &net.OpError{Op: op, Net: "tcp", Source: c.LocalAddr(), Addr: c.RemoteAddr(), Err: err}
}

// Read implements the net.Conn interface for *Conn.
func (c *Conn) Read(b []byte) (n int, err error) {
	for {
		c.dmu.Lock()
		closed, dl := c.closed, c.rdeadline
		c.dmu.Unlock()
		if closed {
			return 0, c.opErr("read", net.ErrClosed)
		}

		h := c.rd
		h.mu.Lock()
		if len(h.buf) > 0 {
			n = copy(b, h.buf)
			h.buf = h.buf[n:]
			h.mu.Unlock()

			return n, nil
		}
		rst, fin := h.rst, h.finDone
		h.mu.Unlock()

		if rst {
			return 0, c.opErr("read", errors.New("connection reset by peer"))
		}
		if fin {
			return 0, io.EOF
		}
		if len(b) == 0 {
			return 0, nil
		}

		if !dl.IsZero() {
			d := time.Until(dl)
			if d <= 0 {
				return 0, c.opErr("read", timeoutError{})
			}

			tm := time.NewTimer(d)
			select {
			case <-h.wake:
			case <-tm.C:
			}
			tm.Stop()
		} else {
			<-h.wake
		}
	}
}

// Write implements the net.Conn interface for *Conn.
func (c *Conn) Write(b []byte) (n int, err error) {
	c.dmu.Lock()
	closed, dl := c.closed, c.wdeadline
	c.dmu.Unlock()
	if closed {
		return 0, c.opErr("write", net.ErrClosed)
	}
	if !dl.IsZero() && !time.Now().Before(dl) {
		return 0, c.opErr("write", timeoutError{})
	}

	h := c.wr
	h.mu.Lock()
	defer h.mu.Unlock()

	if h.fin {
		return 0, c.opErr("write", net.ErrClosed)
	}
	if h.rst {
		return 0, c.opErr("write", errors.New("broken pipe"))
	}

	h.inflight = append(h.inflight, b...)
	if h.n.Faults.Timed {
		h.scheduleTimed(len(b))
	} else {
		h.schedule()
	}

	return len(b), nil
}

// WholeWrites makes every later write of this side arrive as one segment.
func (c *Conn) WholeWrites() {
	c.wr.mu.Lock()
	c.wr.whole = true
	c.wr.mu.Unlock()
}

// CloseWrite half-closes the connection (FIN after pending bytes).
func (c *Conn) CloseWrite() (err error) {
	h := c.wr
	h.mu.Lock()
	defer h.mu.Unlock()

	if !h.fin {
		h.fin = true
		h.schedule()
		if len(h.inflight) == 0 && h.pending == 0 {
			h.finDone = true
			h.poke()
		}
	}

	return nil
}

// Reset aborts the connection: pending bytes in both directions are lost.
func (c *Conn) Reset() {
	for _, h := range []*half{c.wr, c.rd} {
		h.mu.Lock()
		h.rst = true
		h.inflight = nil
		h.mu.Unlock()
		h.poke()
	}
	c.n.S.Fault("stream-reset")
	_ = c.Close()
}

// Close implements the net.Conn interface for *Conn.
func (c *Conn) Close() (err error) {
	already := true
	c.closedOnce.Do(func() { already = false })
	if already {
		return c.opErr("close", net.ErrClosed)
	}

	c.dmu.Lock()
	c.closed = true
	c.dmu.Unlock()

	_ = c.CloseWrite()

	// Whatever the peer still sends is discarded; wake our own reader.
	c.rd.poke()

	return nil
}

// LocalAddr implements the net.Conn interface for *Conn.
func (c *Conn) LocalAddr() (a net.Addr) { return net.TCPAddrFromAddrPort(c.local) }

// RemoteAddr implements the net.Conn interface for *Conn.
func (c *Conn) RemoteAddr() (a net.Addr) { return net.TCPAddrFromAddrPort(c.remote) }

// SetDeadline implements the net.Conn interface for *Conn.
func (c *Conn) SetDeadline(t time.Time) (err error) {
	c.dmu.Lock()
	c.rdeadline, c.wdeadline = t, t
	c.dmu.Unlock()
	c.rd.poke()

	return nil
}

// SetReadDeadline implements the net.Conn interface for *Conn.
func (c *Conn) SetReadDeadline(t time.Time) (err error) {
	c.dmu.Lock()
	closed := c.closed
	c.rdeadline = t
	c.dmu.Unlock()
	c.rd.poke()
	if closed {
		return c.opErr("set", net.ErrClosed)
	}

	return nil
}

// SetWriteDeadline implements the net.Conn interface for *Conn.
func (c *Conn) SetWriteDeadline(t time.Time) (err error) {
	c.dmu.Lock()
	closed := c.closed
	c.wdeadline = t
	c.dmu.Unlock()
	if closed {
		return c.opErr("set", net.ErrClosed)
	}

	return nil
}

// PendingToPeer returns how many written bytes have not been delivered yet.
func (c *Conn) PendingToPeer() (n int) {
	c.wr.mu.Lock()
	defer c.wr.mu.Unlock()

	return len(c.wr.inflight)
}

// ---- datagrams ----

type dgram struct {
	data []byte
	from netip.AddrPort
	to   netip.AddrPort
}

// PacketConn is a simulated datagram socket.
type PacketConn struct {
	n        *Net
	addr     netip.AddrPort
	mu       sync.Mutex
	queue    []dgram
	wake     chan struct{}
	closedCh chan struct{}
	closed   bool
	rdl      time.Time

	// Received counts datagrams delivered to this socket.
	Received int
}

func (p *PacketConn) poke() {
	select {
	case p.wake <- struct{}{}:
	default:
	}
}

// wildcard returns the unspecified IPv4 address with the port of ap.
func wildcard(ap netip.AddrPort) (w netip.AddrPort) {
	return netip.AddrPortFrom(netip.IPv4Unspecified(), ap.Port())
}

// ReadFrom implements the net.PacketConn interface for *PacketConn.
func (p *PacketConn) ReadFrom(b []byte) (n int, addr net.Addr, err error) {
	n, _, addr, err = p.readFrom(b)

	return n, addr, err
}

// Control-message constants of Linux (IPPROTO_IP level).
const (
	solIP         = 0
	ipPktinfo     = 8
	ipOrigDstAddr = 20
	afInet        = 2
)

// ReadMsgUDP is the method of *net.UDPConn of that name on a socket with
// IP_RECVORIGDSTADDR set: oob receives one control message carrying the
// address the datagram was sent to.  Only IPv4 is simulated.
func (p *PacketConn) ReadMsgUDP(b, oob []byte) (n, oobn, flags int, addr *net.UDPAddr, err error) {
	n, to, from, err := p.readFrom(b)
	if err != nil {
		return 0, 0, 0, nil, err
	}

	// struct cmsghdr { size_t len; int level; int type; } followed by a
	// struct sockaddr_in { family (host order), port (network order), addr,
	// zero[8] }.
	var cm [32]byte
	binary.LittleEndian.PutUint64(cm[0:], 32)
	binary.LittleEndian.PutUint32(cm[8:], solIP)
	binary.LittleEndian.PutUint32(cm[12:], ipOrigDstAddr)
	binary.LittleEndian.PutUint16(cm[16:], afInet)
	binary.BigEndian.PutUint16(cm[18:], to.Port())
	a4 := to.Addr().As4()
	copy(cm[20:24], a4[:])
	oobn = copy(oob, cm[:])

	return n, oobn, 0, from.(*net.UDPAddr), nil
}

// WriteMsgUDP is the method of *net.UDPConn of that name: an IP_PKTINFO
// control message in oob chooses the source address of the datagram.
func (p *PacketConn) WriteMsgUDP(b, oob []byte, addr *net.UDPAddr) (n, oobn int, err error) {
	from := p.addr
	if len(oob) >= 28 &&
		binary.LittleEndian.Uint32(oob[8:]) == solIP &&
		binary.LittleEndian.Uint32(oob[12:]) == ipPktinfo {
		// struct in_pktinfo { int ifindex; in_addr spec_dst; in_addr addr; }
		var a4 [4]byte
		copy(a4[:], oob[20:24])
		from = netip.AddrPortFrom(netip.AddrFrom4(a4), p.addr.Port())
	}

	n, err = p.writeFromTo(b, from, addr)

	return n, len(oob), err
}

func (p *PacketConn) readFrom(b []byte) (n int, to netip.AddrPort, addr net.Addr, err error) {
	for {
		p.mu.Lock()
		if p.closed {
			p.mu.Unlock()

			return 0, to, nil, &net.OpError{Op: "read", Net: "udp", Err: net.ErrClosed}
		}
		if len(p.queue) > 0 {
			d := p.queue[0]
			p.queue = p.queue[1:]
			p.mu.Unlock()
			n = copy(b, d.data)

			return n, d.to, net.UDPAddrFromAddrPort(d.from), nil
		}
		dl := p.rdl
		p.mu.Unlock()

		if !dl.IsZero() {
			d := time.Until(dl)
			if d <= 0 {
				return 0, to, nil, &net.OpError{Op: "read", Net: "udp", Err: timeoutError{}}
			}
			tm := time.NewTimer(d)
			select {
			case <-p.wake:
			case <-tm.C:
			}
			tm.Stop()
		} else {
			<-p.wake
		}
	}
}

// WriteTo implements the net.PacketConn interface for *PacketConn.
func (p *PacketConn) WriteTo(b []byte, addr net.Addr) (n int, err error) {
	return p.writeFromTo(b, p.addr, addr)
}

func (p *PacketConn) writeFromTo(b []byte, from netip.AddrPort, addr net.Addr) (n int, err error) {
	p.mu.Lock()
	closed := p.closed
	p.mu.Unlock()
	if closed {
		return 0, &net.OpError{Op: "write", Net: "udp", Err: net.ErrClosed}
	}

	var to netip.AddrPort
	switch a := addr.(type) {
	case *net.UDPAddr:
		to = a.AddrPort()
	default:
		to, err = netip.ParseAddrPort(addr.String())
		if err != nil {
			return 0, err
		}
	}
	to = netip.AddrPortFrom(to.Addr().Unmap(), to.Port())

	d := dgram{data: append([]byte(nil), b...), from: from, to: to}
	p.n.send(d)

	return len(b), nil
}

type flow struct {
	rng *rand.Rand
}

func (n *Net) sendTimed(d dgram) {
	key := fmt.Sprintf("dgram %s>%s", d.from, d.to)
	n.mu.Lock()
	f := n.flows[key]
	if f == nil {
		f = &flow{rng: n.flowRand(key)}
		n.flows[key] = f
	}
	drop := n.Faults.DropDen > 0 && f.rng.IntN(n.Faults.DropDen) == 0
	dup := n.Faults.DupDen > 0 && f.rng.IntN(n.Faults.DupDen) == 0
	lat1 := latencies[f.rng.IntN(len(latencies))]
	lat2 := latencies[f.rng.IntN(len(latencies))]
	n.mu.Unlock()

	now := time.Now()
	lat1 = time.Until(n.instant(now.Add(lat1)))
	lat2 = time.Until(n.instant(now.Add(lat2)))

	if drop {
		n.Drops++
		n.S.Fault("datagram-dropped")

		return
	}

	time.AfterFunc(lat1, func() { n.deliver(d) })
	if dup {
		n.Dups++
		n.S.Fault("datagram-duplicated")
		time.AfterFunc(lat2, func() { n.deliver(d) })
	}
}

func (n *Net) send(d dgram) {
	if n.Faults.Timed {
		n.sendTimed(d)

		return
	}

	if !n.Faults.Events {
		n.deliver(d)

		return
	}

	n.mu.Lock()
	n.dgramSeq++
	seq := n.dgramSeq
	n.mu.Unlock()

	n.S.Post(fmt.Sprintf("dgram%04d %s>%s", seq, d.from, d.to), func() {
		t := n.S.T
		if n.Faults.DropDen > 0 && t.Chance(1, n.Faults.DropDen, "dgram-drop") {
			n.Drops++
			n.S.Fault("datagram-dropped")

			return
		}

		n.deliver(d)
		if n.Faults.DupDen > 0 && t.Chance(1, n.Faults.DupDen, "dgram-dup") {
			n.Dups++
			n.S.Fault("datagram-duplicated")
			n.send(d)
		}
	})
}

func (n *Net) deliver(d dgram) {
	n.mu.Lock()
	pc := n.packets[d.to.String()]
	if pc == nil {
		pc = n.packets[wildcard(d.to).String()]
	}
	n.mu.Unlock()
	if pc == nil {
		return
	}

	pc.mu.Lock()
	if !pc.closed {
		pc.queue = append(pc.queue, d)
		pc.Received++
	}
	pc.mu.Unlock()
	pc.poke()
}

// Close implements the net.PacketConn interface for *PacketConn.
func (p *PacketConn) Close() (err error) {
	p.mu.Lock()
	if p.closed {
		p.mu.Unlock()

		return &net.OpError{Op: "close", Net: "udp", Err: net.ErrClosed}
	}
	p.closed = true
	p.mu.Unlock()

	p.n.mu.Lock()
	delete(p.n.packets, p.addr.String())
	p.n.mu.Unlock()
	p.poke()

	return nil
}

// LocalAddr implements the net.PacketConn interface for *PacketConn.
func (p *PacketConn) LocalAddr() (a net.Addr) { return net.UDPAddrFromAddrPort(p.addr) }

// SetDeadline implements the net.PacketConn interface for *PacketConn.
func (p *PacketConn) SetDeadline(t time.Time) (err error) { return p.SetReadDeadline(t) }

// SetReadDeadline implements the net.PacketConn interface for *PacketConn.
func (p *PacketConn) SetReadDeadline(t time.Time) (err error) {
	p.mu.Lock()
	p.rdl = t
	p.mu.Unlock()
	p.poke()

	return nil
}

// SetWriteDeadline implements the net.PacketConn interface for *PacketConn.
func (p *PacketConn) SetWriteDeadline(time.Time) (err error) { return nil }

// SetReadBuffer lets quic-go believe it enlarged the socket buffer.
func (p *PacketConn) SetReadBuffer(int) (err error) { return nil }

// SetWriteBuffer lets quic-go believe it enlarged the socket buffer.
func (p *PacketConn) SetWriteBuffer(int) (err error) { return nil }

// ---- connected datagram socket ----

// UDPConn is a client datagram socket connected to one remote address.
type UDPConn struct {
	*PacketConn
	remote netip.AddrPort
}

// DialUDP binds a datagram socket at local and connects it to address.
func (n *Net) DialUDP(address string, local netip.AddrPort) (c *UDPConn, err error) {
	ap, err := normAddr(address)
	if err != nil {
		return nil, err
	}

	pc, err := n.bindPacket(local)
	if err != nil {
		return nil, err
	}

	return &UDPConn{PacketConn: pc, remote: ap}, nil
}

// Read implements the net.Conn interface for *UDPConn.
func (c *UDPConn) Read(b []byte) (n int, err error) {
	for {
		var from net.Addr
		n, from, err = c.PacketConn.ReadFrom(b)
		if err != nil {
			return 0, err
		}
		if ua, ok := from.(*net.UDPAddr); ok && ua.AddrPort() == c.remote {
			return n, nil
		}
	}
}

// Write implements the net.Conn interface for *UDPConn.
func (c *UDPConn) Write(b []byte) (n int, err error) {
	return c.PacketConn.WriteTo(b, net.UDPAddrFromAddrPort(c.remote))
}

// RemoteAddr implements the net.Conn interface for *UDPConn.
func (c *UDPConn) RemoteAddr() (a net.Addr) { return net.UDPAddrFromAddrPort(c.remote) }
