// Package world assembles the resolver's real middleware stack
// (dnssvc.NewHandlers: initial, ratelimit/access/device finding, pre-service,
// main filtering middleware, pre-upstream, cache) over simulated
// collaborators, for the engines that need the whole pipeline.
package world

import (
	"context"
	"fmt"
	"log/slog"
	"net"
	"net/netip"
	"sync/atomic"
	"time"

	"github.com/AdguardTeam/AdGuardDNS/internal/access"
	"github.com/AdguardTeam/AdGuardDNS/internal/agd"
	"github.com/AdguardTeam/AdGuardDNS/internal/agdcache"
	"github.com/AdguardTeam/AdGuardDNS/internal/agdnet"
	"github.com/AdguardTeam/AdGuardDNS/internal/agdtest"
	"github.com/AdguardTeam/AdGuardDNS/internal/billstat"
	"github.com/AdguardTeam/AdGuardDNS/internal/dnscheck"
	"github.com/AdguardTeam/AdGuardDNS/internal/dnsdb"
	"github.com/AdguardTeam/AdGuardDNS/internal/dnsmsg"
	"github.com/AdguardTeam/AdGuardDNS/internal/dnsserver"
	"github.com/AdguardTeam/AdGuardDNS/internal/dnsserver/ratelimit"
	"github.com/AdguardTeam/AdGuardDNS/internal/dnssvc"
	"github.com/AdguardTeam/AdGuardDNS/internal/errcoll"
	"github.com/AdguardTeam/AdGuardDNS/internal/filter"
	"github.com/AdguardTeam/AdGuardDNS/internal/filter/hashprefix"
	"github.com/AdguardTeam/AdGuardDNS/internal/geoip"
	"github.com/AdguardTeam/AdGuardDNS/internal/profiledb"
	"github.com/AdguardTeam/AdGuardDNS/internal/querylog"
	"github.com/AdguardTeam/AdGuardDNS/internal/rulestat"
	"github.com/AdguardTeam/golibs/netutil"
	"github.com/miekg/dns"
)

// Config configures a World.  Nil collaborators get neutral defaults.
type Config struct {
	Cache         *dnssvc.CacheConfig
	Upstream      dnsserver.Handler
	GeoIP         geoip.Interface
	ProfileDB     profiledb.Interface
	AccessManager access.Interface
	RateLimit     ratelimit.Interface
	FilterStorage filter.Storage
	HashMatcher   filter.HashMatcher
	QueryLog      querylog.Interface
	BillStat      billstat.Recorder
	RuleStat      rulestat.Interface
	DNSDB         dnsdb.Interface
	DNSCheck      dnscheck.Interface
	ErrColl       errcoll.Interface
	Cloner        *dnsmsg.Cloner
	CacheManager  agdcache.Manager

	// Servers are the servers of the single server group.
	Servers []*agd.Server

	// DeviceDomains are the device domains of the server group.
	DeviceDomains []string

	// FilterConfig is the filtering group's configuration.
	FilterConfig *filter.ConfigGroup
}

// World is an assembled stack.
type World struct {
	Handlers dnssvc.Handlers
	Group    *agd.ServerGroup
	Servers  []*agd.Server
	Messages *dnsmsg.Constructor
	Cloner   *dnsmsg.Cloner
}

var nsCounter atomic.Uint64

// CacheManager records the caches registered with it so that a twin stack can
// be emptied between requests.
type CacheManager struct {
	Caches map[string]agdcache.Clearer
}

// Add implements the agdcache.Manager interface for *CacheManager.
func (m *CacheManager) Add(id string, c agdcache.Clearer) {
	if m.Caches == nil {
		m.Caches = map[string]agdcache.Clearer{}
	}
	m.Caches[id] = c
}

// ClearByID implements the agdcache.Manager interface for *CacheManager.
func (m *CacheManager) ClearByID(id string) {
	if c, ok := m.Caches[id]; ok {
		c.Clear()
	}
}

// ClearAll empties every registered cache.
func (m *CacheManager) ClearAll() {
	for _, c := range m.Caches {
		c.Clear()
	}
}

// ErrColl collects errors for inspection.
type ErrColl struct {
	Errs []error
}

// Collect implements the errcoll.Interface interface for *ErrColl.
func (c *ErrColl) Collect(_ context.Context, err error) { c.Errs = append(c.Errs, err) }

// NewServer returns a server description.
func NewServer(name string, proto agd.Protocol, addr string, linkedIP bool) (s *agd.Server) {
	s = &agd.Server{
		Name:            agd.ServerName(name),
		Protocol:        proto,
		LinkedIPEnabled: linkedIP,
	}
	s.SetBindData([]*agd.ServerBindData{{AddrPort: netip.MustParseAddrPort(addr)}})

	return s
}

// New assembles a world.
func New(c *Config) (w *World, err error) {
	cloner := c.Cloner
	if cloner == nil {
		cloner = agdtest.NewCloner()
	}

	sde := agdtest.NewSDEConfig(true)
	msgs, err := dnsmsg.NewConstructor(&dnsmsg.ConstructorConfig{
		Cloner:              cloner,
		BlockingMode:        &dnsmsg.BlockingModeNullIP{},
		StructuredErrors:    sde,
		FilteredResponseTTL: 10 * time.Second,
		EDEEnabled:          true,
	})
	if err != nil {
		return nil, err
	}

	servers := c.Servers
	if len(servers) == 0 {
		servers = []*agd.Server{NewServer("srv-dns", agd.ProtoDNS, "198.18.0.1:53", false)}
	}

	fltConf := c.FilterConfig
	if fltConf == nil {
		fltConf = &filter.ConfigGroup{
			Parental:     &filter.ConfigParental{},
			RuleList:     &filter.ConfigRuleList{},
			SafeBrowsing: &filter.ConfigSafeBrowsing{},
		}
	}

	const fltGrpID agd.FilteringGroupID = "fg"
	grp := &agd.ServerGroup{
		DDR:             &agd.DDR{},
		DeviceDomains:   c.DeviceDomains,
		Name:            "sg",
		FilteringGroup:  fltGrpID,
		Servers:         servers,
		ProfilesEnabled: c.ProfileDB != nil,
	}

	hc := &dnssvc.HandlersConfig{
		BaseLogger:           slog.New(slog.DiscardHandler),
		Cloner:               cloner,
		Cache:                c.Cache,
		HumanIDParser:        agd.NewHumanIDParser(),
		Messages:             msgs,
		StructuredErrors:     sde,
		AccessManager:        c.AccessManager,
		BillStat:             c.BillStat,
		CacheManager:         c.CacheManager,
		DNSCheck:             c.DNSCheck,
		DNSDB:                c.DNSDB,
		ErrColl:              c.ErrColl,
		FilterStorage:        c.FilterStorage,
		GeoIP:                c.GeoIP,
		Handler:              c.Upstream,
		HashMatcher:          c.HashMatcher,
		ProfileDB:            c.ProfileDB,
		PrometheusRegisterer: agdtest.NewTestPrometheusRegisterer(),
		QueryLog:             c.QueryLog,
		RateLimit:            c.RateLimit,
		RuleStat:             c.RuleStat,
		MetricsNamespace:     fmt.Sprintf("sim%d", nsCounter.Add(1)),
		FilteringGroups: map[agd.FilteringGroupID]*agd.FilteringGroup{
			fltGrpID: {FilterConfig: fltConf, ID: fltGrpID},
		},
		ServerGroups: []*agd.ServerGroup{grp},
		EDEEnabled:   true,
	}

	if hc.Cache == nil {
		hc.Cache = &dnssvc.CacheConfig{Type: dnssvc.CacheTypeNone}
	}
	if hc.AccessManager == nil {
		hc.AccessManager = &agdtest.AccessManager{
			OnIsBlockedHost: func(string, uint16) bool { return false },
			OnIsBlockedIP:   func(netip.Addr) bool { return false },
		}
	}
	if hc.BillStat == nil {
		hc.BillStat = billstat.EmptyRecorder{}
	}
	if hc.CacheManager == nil {
		hc.CacheManager = agdcache.EmptyManager{}
	}
	if hc.DNSCheck == nil {
		hc.DNSCheck = &agdtest.DNSCheck{
			OnCheck: func(context.Context, *dns.Msg, *agd.RequestInfo) (*dns.Msg, error) { return nil, nil },
		}
	}
	if hc.DNSDB == nil {
		hc.DNSDB = dnsdb.Empty{}
	}
	if hc.ErrColl == nil {
		hc.ErrColl = &ErrColl{}
	}
	if hc.FilterStorage == nil {
		hc.FilterStorage = &agdtest.FilterStorage{
			OnForConfig: func(context.Context, filter.Config) filter.Interface { return filter.Empty{} },
			OnHasListID: func(filter.ID) bool { return false },
		}
	}
	if hc.GeoIP == nil {
		hc.GeoIP = &agdtest.GeoIP{
			OnData: func(string, netip.Addr) (*geoip.Location, error) { return nil, nil },
			OnSubnetByLocation: func(_ *geoip.Location, fam netutil.AddrFamily) (netip.Prefix, error) {
				return netutil.ZeroPrefix(fam), nil
			},
		}
	}
	if hc.HashMatcher == nil {
		hc.HashMatcher = hashprefix.NewMatcher(nil)
	}
	if hc.QueryLog == nil {
		hc.QueryLog = querylog.Empty{}
	}
	if hc.RateLimit == nil {
		hc.RateLimit = &agdtest.RateLimit{
			OnIsRateLimited:  func(context.Context, *dns.Msg, netip.Addr) (bool, bool, error) { return false, false, nil },
			OnCountResponses: func(context.Context, *dns.Msg, netip.Addr) {},
		}
	}
	if hc.RuleStat == nil {
		hc.RuleStat = rulestat.Empty{}
	}

	handlers, err := dnssvc.NewHandlers(context.Background(), hc)
	if err != nil {
		return nil, err
	}

	return &World{Handlers: handlers, Group: grp, Servers: servers, Messages: msgs, Cloner: cloner}, nil
}

// Request describes one request as a transport would deliver it.
type Request struct {
	Server *agd.Server
	Info   *dnsserver.RequestInfo
	Local  netip.AddrPort
	Remote netip.AddrPort
	// MappedRemote: an IPv4 remote address reaches the handler in its
	// 16-octet form, as a socket listening on both families delivers it;
	// RemoteUDP: as a *net.UDPAddr rather than a *net.TCPAddr.
	MappedRemote, RemoteUDP bool
	Msg    *dns.Msg

	// Dispose makes Serve release the written response to the cloner after
	// the handler has returned, as the plain-DNS servers do.
	Dispose bool

	// Scribble makes Serve overwrite the written response in place after the
	// handler has returned: a message handed to a response writer belongs to
	// the writer (the servers truncate it, add OPT records to it and release
	// its records for reuse).
	Scribble bool
}

// DeepCopy is dns.Msg.Copy that also copies the address of an ECS option
// (the library shares it between the copies).
func DeepCopy(m *dns.Msg) (c *dns.Msg) {
	c = m.Copy()
	for _, rr := range c.Extra {
		if opt, ok := rr.(*dns.OPT); ok {
			for _, o := range opt.Option {
				if e, isECS := o.(*dns.EDNS0_SUBNET); isECS {
					e.Address = append(net.IP(nil), e.Address...)
				}
			}
		}
	}

	return c
}

// Scribble overwrites a message in place, top-level fields and records.
func Scribble(m *dns.Msg) {
	if m == nil {
		return
	}
	for _, sec := range [][]dns.RR{m.Answer, m.Ns, m.Extra} {
		for _, rr := range sec {
			h := rr.Header()
			h.Ttl = 12345
			h.Name = "scribbled.invalid."
			switch v := rr.(type) {
			case *dns.A:
				for i := range v.A {
					v.A[i] = 0x99
				}
			case *dns.AAAA:
				for i := range v.AAAA {
					v.AAAA[i] = 0x99
				}
			case *dns.TXT:
				for i := range v.Txt {
					v.Txt[i] = "scribbled"
				}
			case *dns.CNAME:
				v.Target = "scribbled.invalid."
			case *dns.SOA:
				v.Minttl, v.Ns = 54321, "scribbled.invalid."
			case *dns.OPT:
				for _, o := range v.Option {
					if e, ok := o.(*dns.EDNS0_SUBNET); ok {
						for i := range e.Address {
							e.Address[i] = 0x99
						}
						e.SourceNetmask, e.SourceScope = 1, 1
					}
				}
			}
		}
		for i := range sec {
			sec[i] = nil
		}
	}
	m.Answer, m.Ns, m.Extra = nil, nil, nil
	m.Truncated = true
	m.Rcode = dns.RcodeRefused
	m.Id ^= 0xffff
	for i := range m.Question {
		m.Question[i].Name = "scribbled.invalid."
	}
}

// Writer records what the stack writes.
type Writer struct {
	Local, Remote net.Addr
	Msgs          []*dns.Msg

	// origs are the messages as the stack handed them over (Msgs are copies
	// taken at that moment, as the bytes on the wire would be).
	origs []*dns.Msg
}

// LocalAddr implements the dnsserver.ResponseWriter interface for *Writer.
func (w *Writer) LocalAddr() net.Addr { return w.Local }

// RemoteAddr implements the dnsserver.ResponseWriter interface for *Writer.
func (w *Writer) RemoteAddr() net.Addr { return w.Remote }

// WriteMsg implements the dnsserver.ResponseWriter interface for *Writer.
func (w *Writer) WriteMsg(_ context.Context, _, resp *dns.Msg) (err error) {
	w.Msgs = append(w.Msgs, DeepCopy(resp))
	w.origs = append(w.origs, resp)

	return nil
}

// Serve passes one request through the handler of its server.
func (w *World) Serve(ctx context.Context, r *Request) (out *Writer, err error) {
	srv := r.Server
	if srv == nil {
		srv = w.Servers[0]
	}

	h, ok := w.Handlers[dnssvc.HandlerKey{Server: srv, ServerGroup: w.Group}]
	if !ok {
		return nil, fmt.Errorf("no handler for server %s", srv.Name)
	}

	local := r.Local
	if !local.IsValid() {
		bd := srv.BindData()[0]
		local = bd.AddrPort
		if bd.PrefixAddr != nil {
			local = netip.AddrPortFrom(bd.PrefixAddr.Prefix.Addr(), bd.PrefixAddr.Port)
		}
	}

	out = &Writer{}
	if srv.Protocol == agd.ProtoDNS && false {
		out.Local, out.Remote = net.UDPAddrFromAddrPort(local), net.UDPAddrFromAddrPort(r.Remote)
	} else {
		out.Local, out.Remote = net.TCPAddrFromAddrPort(local), net.TCPAddrFromAddrPort(r.Remote)
	}
	if r.RemoteUDP {
		out.Remote = net.UDPAddrFromAddrPort(r.Remote)
	}
	if r.MappedRemote && r.Remote.Addr().Is4() {
		ip16 := net.IP(r.Remote.Addr().AsSlice()).To16()
		if r.RemoteUDP {
			out.Remote = &net.UDPAddr{IP: ip16, Port: int(r.Remote.Port())}
		} else {
			out.Remote = &net.TCPAddr{IP: ip16, Port: int(r.Remote.Port())}
		}
	}

	info := r.Info
	if info == nil {
		info = &dnsserver.RequestInfo{}
	}
	if info.StartTime.IsZero() {
		info.StartTime = time.Now()
	}

	ctx = dnsserver.ContextWithServerInfo(ctx, &dnsserver.ServerInfo{
		Name:  string(srv.Name),
		Addr:  local.String(),
		Proto: srv.Protocol,
	})
	ctx = dnsserver.ContextWithRequestInfo(ctx, info)

	err = h.ServeDNS(ctx, out, r.Msg)
	if r.Scribble {
		for _, m := range out.origs {
			Scribble(m)
		}
	}
	if r.Dispose {
		for _, m := range out.origs {
			w.Cloner.Dispose(m)
		}
	}

	return out, err
}

// NewServerIface returns a plain-DNS server description bound to an
// interface prefix (dedicated addresses live inside the prefix).
func NewServerIface(name string, prefix string, port uint16, linkedIP bool) (s *agd.Server) {
	return NewServerIfaceProto(name, agd.ProtoDNS, prefix, port, linkedIP)
}

// NewServerIfaceProto is NewServerIface for any protocol.
func NewServerIfaceProto(name string, proto agd.Protocol, prefix string, port uint16, linkedIP bool) (s *agd.Server) {
	s = &agd.Server{
		Name:            agd.ServerName(name),
		Protocol:        proto,
		LinkedIPEnabled: linkedIP,
	}
	// The interface's subnet (dedicated addresses live in it) and the
	// server's own address on it, the first of the subnet.
	pref := netip.MustParsePrefix(prefix)
	own := netip.PrefixFrom(pref.Addr().Next(), pref.Addr().BitLen())
	s.SetBindData([]*agd.ServerBindData{{
		PrefixAddr: &agdnet.PrefixNetAddr{Prefix: pref, Net: "udp", Port: port},
	}, {
		PrefixAddr: &agdnet.PrefixNetAddr{Prefix: own, Net: "udp", Port: port},
	}})

	return s
}
