// Package cachesim simulates the response caches (properties C04 and C05):
// the real dnsserver/cache middleware ("simple" sub-batch) and the real
// ECS-aware cache inside the full dnssvc handler stack ("ecs" sub-batch) in
// front of a scripted upstream whose answer is a function of the question,
// the DO bit and the forwarded subnet, on the simulated clock.
package cachesim

import (
	"context"
	"fmt"
	"hash/fnv"
	"log/slog"
	"net"
	"net/netip"
	"slices"
	"sort"
	"strings"
	"testing"
	"time"

	"github.com/AdguardTeam/AdGuardDNS/internal/agd"
	"github.com/AdguardTeam/AdGuardDNS/internal/agdtest"
	"github.com/AdguardTeam/AdGuardDNS/internal/dnsmsg"
	"github.com/AdguardTeam/AdGuardDNS/internal/dnsserver"
	"github.com/AdguardTeam/AdGuardDNS/internal/dnsserver/cache"
	"github.com/AdguardTeam/AdGuardDNS/internal/dnssvc"
	"github.com/AdguardTeam/AdGuardDNS/internal/ecscache"
	"github.com/AdguardTeam/AdGuardDNS/internal/geoip"
	"github.com/AdguardTeam/AdGuardDNS/verif/kernel"
	"github.com/AdguardTeam/AdGuardDNS/verif/world"
	"github.com/AdguardTeam/golibs/netutil"
	"github.com/miekg/dns"
)

// ---- scripted upstream ----

type shape struct {
	kind   string // ok, cname, nodata, nodata-nosoa, nx, servfail, refused, tc, zero
	ttls   []uint32
	soaTTL uint32
	soaMin uint32
	ecs    bool
	ad     bool
	ede    bool

	// longScope: the upstream's answer is good for a narrower network than
	// the one it was asked about (scope longer than the source prefix).
	longScope bool
}

var shapes = map[string]shape{
	"ok5.test.":   {kind: "ok", ttls: []uint32{5}},
	"ok2.test.":   {kind: "ok", ttls: []uint32{2, 30}},
	"ok300.test.": {kind: "ok", ttls: []uint32{300, 30}, ad: true},
	"okmax.test.": {kind: "ok", ttls: []uint32{1 << 31}},
	"cn.test.":    {kind: "cname", ttls: []uint32{30, 5}},
	// Negative answers behind an alias: a short-lived CNAME in front of an
	// SOA that would allow a longer life.
	"cnnd.test.":  {kind: "cname-nodata", ttls: []uint32{5}, soaTTL: 300, soaMin: 60},
	"cnnx.test.":  {kind: "cname-nx", ttls: []uint32{2}, soaTTL: 30, soaMin: 30},
	"nd.test.":    {kind: "nodata", soaTTL: 300, soaMin: 10},
	"ndlow.test.": {kind: "nodata", soaTTL: 5, soaMin: 300, ad: true},
	"nosoa.test.": {kind: "nodata-nosoa"},
	// Incomplete answers: a referral (name servers in the authority section,
	// no SOA) and an alias chain that stops short, likewise without SOA.
	"refer.test.":   {kind: "referral", ttls: []uint32{300}},
	"cnshort.test.": {kind: "cname-nosoa", ttls: []uint32{300}},
	"nx.test.":      {kind: "nx", soaTTL: 30, soaMin: 30},
	"sf.test.":      {kind: "servfail", soaTTL: 300, soaMin: 300},
	"sfbare.test.":  {kind: "servfail"},
	"rf.test.":      {kind: "refused", soaTTL: 300, soaMin: 300},
	"tc.test.":      {kind: "tc", ttls: []uint32{300}},
	"z.test.":       {kind: "ok", ttls: []uint32{0}},
	"e5.test.":      {kind: "ok", ttls: []uint32{5}, ecs: true},
	"e300.test.":    {kind: "ok", ttls: []uint32{300}, ecs: true, ad: true},
	"e300n.test.":   {kind: "ok", ttls: []uint32{300}, ecs: true, longScope: true},
	// A name under one of the domains the resolver knows to answer alike for
	// every subnet whatever they claim ("126.net."); the name itself is not on
	// that list, and its answers do depend on the subnet.
	"cdn.geo.126.net.": {kind: "ok", ttls: []uint32{300}, ecs: true},
	"enx.test.":        {kind: "nx", soaTTL: 30, soaMin: 30, ecs: true},
	"other300.test.":   {kind: "ok", ttls: []uint32{300}},
	// An answer with records in every section, each with a TTL of its own
	// (name server in the authority section, its address as glue).
	"glue.test.": {kind: "glue", ttls: []uint32{30}},
	// Answers whose OPT record carries an extended DNS error next to the
	// client-subnet option (a resolver serving stale data says so).
	"ede5.test.":   {kind: "ok", ttls: []uint32{5}, ecs: true, ede: true},
	"ede300.test.": {kind: "ok", ttls: []uint32{300}, ede: true},
}

// lookAlikes are pairs of names that differ in one octet which is not a
// letter, the two octets being 0x20 apart like the cases of a letter.
var lookAlikes = [][2]string{
	{"n^a.test.", "n~a.test."},
	{"n[a.test.", "n{a.test."},
	{"n]a.test.", "n}a.test."},
	{"n@a.test.", "n`a.test."},
	{"n_a.test.", "n\\127a.test."},
	{"n\\127b.test.", "n|127b.test."},
}

var nameList = func() (ns []string) {
	for _, p := range lookAlikes {
		for _, n := range p {
			shapes[n] = shape{kind: "ok", ttls: []uint32{300}}
		}
	}
	for n := range shapes {
		ns = append(ns, n)
	}
	sort.Strings(ns)

	return ns
}()

type upCall struct {
	at     time.Time
	name   string
	qtype  uint16
	qclass uint16
	do     bool
	hasECS bool
	subnet netip.Prefix
	ecsErr string
	// allECS is every ECS option of the query, in order.
	allECS []string
}

type upstream struct {
	calls []upCall
}

func tagFor(s string) (a, b, c byte) {
	h := fnv.New32a()
	_, _ = h.Write([]byte(s))
	v := h.Sum32()

	return byte(v >> 16), byte(v >> 8), byte(v)
}

func reqSubnet(req *dns.Msg) (p netip.Prefix, scopeReq uint8, has bool, errs string) {
	opt := req.IsEdns0()
	if opt == nil {
		return netip.Prefix{}, 0, false, ""
	}
	for _, o := range opt.Option {
		if e, ok := o.(*dns.EDNS0_SUBNET); ok {
			ip, ok2 := netip.AddrFromSlice(e.Address)
			if !ok2 {
				return netip.Prefix{}, 0, true, "bad address"
			}
			if e.Family == 1 {
				ip = ip.Unmap()
			}

			return netip.PrefixFrom(ip, int(e.SourceNetmask)), e.SourceScope, true, ""
		}
	}

	return netip.Prefix{}, 0, false, ""
}

// answer is the pure function (question, DO, forwarded subnet) -> response.
func answer(req *dns.Msg) (resp *dns.Msg) {
	q := req.Question[0]
	lname := strings.ToLower(q.Name)
	sh, ok := shapes[lname]
	if !ok {
		sh = shape{kind: "nx", soaTTL: 30, soaMin: 30}
	}

	do := false
	if opt := req.IsEdns0(); opt != nil {
		do = opt.Do()
	}

	subnet, _, hasECS, _ := reqSubnet(req)

	resp = &dns.Msg{}
	resp.SetReply(req)
	resp.RecursionAvailable = true
	resp.AuthenticatedData = sh.ad

	tagSrc := "fixed:" + lname
	if sh.ecs && hasECS {
		tagSrc = "subnet:" + subnet.String()
	}
	t1, t2, t3 := tagFor(tagSrc)

	soa := func() dns.RR {
		// A negative answer of a region-dependent name is region-dependent
		// too (a zone served differently per region): its SOA carries the
		// tag in the serial.
		serial := uint32(1)
		if sh.ecs && hasECS {
			serial = 0x01000000 | uint32(t1)<<16 | uint32(t2)<<8 | uint32(t3)
		}

		return &dns.SOA{
			Hdr: dns.RR_Header{Name: "test.", Rrtype: dns.TypeSOA, Class: q.Qclass, Ttl: sh.soaTTL},
			Ns:  "ns.test.", Mbox: "h.test.", Serial: serial, Refresh: 1, Retry: 1, Expire: 1, Minttl: sh.soaMin,
		}
	}

	mk := func(name string, ttl uint32, i int) dns.RR {
		hdr := dns.RR_Header{Name: name, Rrtype: q.Qtype, Class: q.Qclass, Ttl: ttl}
		switch q.Qtype {
		case dns.TypeA:
			return &dns.A{Hdr: hdr, A: net.IPv4(10+byte(i), t1, t2, t3)}
		case dns.TypeAAAA:
			return &dns.AAAA{Hdr: hdr, AAAA: net.IP{0x20, 1, 0xd, 0xb8, byte(i), t1, t2, t3, 0, 0, 0, 0, 0, 0, 0, 1}}
		case dns.TypeTXT:
			return &dns.TXT{Hdr: hdr, Txt: []string{fmt.Sprintf("tag-%d-%02x%02x%02x", i, t1, t2, t3)}}
		default:
			return nil
		}
	}

	kind := sh.kind
	if (kind == "ok" || kind == "cname" || kind == "tc" || kind == "glue") && mk(q.Name, 1, 0) == nil {
		kind = "nodata"
		sh.soaTTL, sh.soaMin = 60, 60
	}

	switch kind {
	case "ok", "tc":
		for i, ttl := range sh.ttls {
			resp.Answer = append(resp.Answer, mk(q.Name, ttl, i))
		}
		if do {
			resp.Answer = append(resp.Answer, &dns.RRSIG{
				Hdr:         dns.RR_Header{Name: q.Name, Rrtype: dns.TypeRRSIG, Class: q.Qclass, Ttl: sh.ttls[0]},
				TypeCovered: q.Qtype, Algorithm: 8, Labels: 2, OrigTtl: sh.ttls[0], Expiration: 1, Inception: 1,
				KeyTag: 1, SignerName: "test.", Signature: "c2ln",
			})
		}
		resp.Truncated = kind == "tc"
	case "glue":
		resp.Answer = append(resp.Answer, mk(q.Name, sh.ttls[0], 0))
		resp.Ns = append(resp.Ns, &dns.NS{
			Hdr: dns.RR_Header{Name: "test.", Rrtype: dns.TypeNS, Class: q.Qclass, Ttl: 120}, Ns: "ns.glue.test.",
		})
		resp.Extra = append(resp.Extra, &dns.A{
			Hdr: dns.RR_Header{Name: "ns.glue.test.", Rrtype: dns.TypeA, Class: q.Qclass, Ttl: 600}, A: net.IPv4(10, t1, t2, t3),
		})
	case "cname":
		resp.Answer = append(resp.Answer, &dns.CNAME{
			Hdr:    dns.RR_Header{Name: q.Name, Rrtype: dns.TypeCNAME, Class: q.Qclass, Ttl: sh.ttls[0]},
			Target: "target.test.",
		}, mk("target.test.", sh.ttls[1], 1))
	case "nodata":
		resp.Ns = append(resp.Ns, soa())
	case "cname-nodata", "cname-nx":
		resp.Answer = append(resp.Answer, &dns.CNAME{
			Hdr:    dns.RR_Header{Name: q.Name, Rrtype: dns.TypeCNAME, Class: q.Qclass, Ttl: sh.ttls[0]},
			Target: "gone.test.",
		})
		resp.Ns = append(resp.Ns, soa())
		if kind == "cname-nx" {
			resp.Rcode = dns.RcodeNameError
		}
	case "nodata-nosoa":
	case "referral", "cname-nosoa":
		if kind == "cname-nosoa" {
			resp.Answer = append(resp.Answer, &dns.CNAME{
				Hdr:    dns.RR_Header{Name: q.Name, Rrtype: dns.TypeCNAME, Class: q.Qclass, Ttl: sh.ttls[0]},
				Target: "elsewhere.test.",
			})
		}
		resp.Ns = append(resp.Ns, &dns.NS{
			Hdr: dns.RR_Header{Name: "test.", Rrtype: dns.TypeNS, Class: q.Qclass, Ttl: sh.ttls[0]}, Ns: "ns.elsewhere.test.",
		})
	case "nx":
		resp.Rcode = dns.RcodeNameError
		resp.Ns = append(resp.Ns, soa())
	case "servfail":
		resp.Rcode = dns.RcodeServerFailure
		if sh.soaTTL > 0 {
			resp.Ns = append(resp.Ns, soa())
		}
	case "refused":
		resp.Rcode = dns.RcodeRefused
		resp.Ns = append(resp.Ns, soa())
	}

	if opt := req.IsEdns0(); opt != nil {
		resp.SetEdns0(opt.UDPSize(), do)
		if sh.ede {
			ropt := resp.IsEdns0()
			ropt.Option = append(ropt.Option, &dns.EDNS0_EDE{InfoCode: dns.ExtendedErrorCodeStaleAnswer, ExtraText: "stale"})
		}
		if hasECS {
			scope := uint8(0)
			if sh.ecs {
				scope = uint8(subnet.Bits())
				if sh.longScope && scope > 0 {
					scope = min(scope+7, uint8(subnet.Addr().BitLen()))
				}
			}
			ropt := resp.IsEdns0()
			for _, o := range opt.Option {
				if e, ok := o.(*dns.EDNS0_SUBNET); ok {
					ropt.Option = append(ropt.Option, &dns.EDNS0_SUBNET{
						Code: dns.EDNS0SUBNET, Family: e.Family, SourceNetmask: e.SourceNetmask,
						SourceScope: scope, Address: e.Address,
					})
				}
			}
		}
	}

	return resp
}

func (u *upstream) ServeDNS(ctx context.Context, rw dnsserver.ResponseWriter, req *dns.Msg) (err error) {
	q := req.Question[0]
	c := upCall{at: time.Now(), name: strings.ToLower(q.Name), qtype: q.Qtype, qclass: q.Qclass}
	if opt := req.IsEdns0(); opt != nil {
		c.do = opt.Do()
	}
	c.subnet, _, c.hasECS, c.ecsErr = reqSubnet(req)
	if opt := req.IsEdns0(); opt != nil {
		for _, o := range opt.Option {
			if e, ok := o.(*dns.EDNS0_SUBNET); ok {
				c.allECS = append(c.allECS, fmt.Sprintf("%s/%d", e.Address, e.SourceNetmask))
			}
		}
	}
	u.calls = append(u.calls, c)

	return rw.WriteMsg(ctx, req, answer(req))
}

// ---- GeoIP stub with a transparent mapping ----

type geo struct{}

var (
	geoAddrs = []struct {
		p    netip.Prefix
		ctry geoip.Country
		asn  geoip.ASN
	}{
		{netip.MustParsePrefix("192.0.2.0/24"), "US", 100},
		{netip.MustParsePrefix("198.51.100.0/24"), "DE", 200},
		{netip.MustParsePrefix("2001:db8:a::/48"), "US", 100},
		{netip.MustParsePrefix("2001:db8:b::/48"), "JP", 300},
		{netip.MustParsePrefix("198.18.5.0/24"), "JP", 300},
		// A country without a known autonomous system.
		{netip.MustParsePrefix("203.0.113.0/24"), "US", 0},
	}
	// Like the file-based database: the subnet of the autonomous system if
	// the database has one for it, else the subnet of the country.
	geoSubnets = map[string]netip.Prefix{
		"asn100/4": netip.MustParsePrefix("100.64.10.0/24"),
		"asn300/6": netip.MustParsePrefix("2001:db8:ff30::/48"),
		// Neighbours whose prefix lengths are not multiples of eight (the
		// file-based database keeps such lengths): they differ only inside
		// one octet.
		"US/4": netip.MustParsePrefix("100.64.1.0/26"),
		"DE/4": netip.MustParsePrefix("100.64.1.64/26"),
		"US/6": netip.MustParsePrefix("2001:db8:ff01:10::/60"),
		"JP/6": netip.MustParsePrefix("2001:db8:ff01:20::/60"),
	}
)

func locOf(ip netip.Addr) (l *geoip.Location) {
	for _, g := range geoAddrs {
		if g.p.Contains(ip) {
			return &geoip.Location{Country: g.ctry, ASN: g.asn}
		}
	}

	return nil
}

func famOf(ip netip.Addr) (f netutil.AddrFamily, s string) {
	if ip.Is4() {
		return netutil.AddrFamilyIPv4, "4"
	}

	return netutil.AddrFamilyIPv6, "6"
}

func (geo) Data(_ string, ip netip.Addr) (l *geoip.Location, err error) { return locOf(ip), nil }

func (geo) SubnetByLocation(l *geoip.Location, fam netutil.AddrFamily) (n netip.Prefix, err error) {
	s := "6"
	if fam == netutil.AddrFamilyIPv4 {
		s = "4"
	}
	if p, ok := subnetOfLoc(l, s); ok {
		return p, nil
	}

	return netutil.ZeroPrefix(fam), nil
}

func subnetOfLoc(l *geoip.Location, fam string) (p netip.Prefix, ok bool) {
	if l == nil {
		return netip.Prefix{}, false
	}
	if l.ASN != 0 {
		if p, ok = geoSubnets[fmt.Sprintf("asn%d/%s", l.ASN, fam)]; ok {
			return p, true
		}
	}
	p, ok = geoSubnets[string(l.Country)+"/"+fam]

	return p, ok
}

// expectedSubnet is what the statement of C05 allows to be sent upstream for
// a client: the coarse subnet of the ECS option's location if it has one,
// else of the client's location, or the zero prefix.
func expectedSubnet(client netip.Addr, ecs *netip.Prefix) (p netip.Prefix) {
	addr := client
	if ecs != nil {
		addr = ecs.Addr()
	}
	fam, fs := famOf(addr)
	if ecs != nil && ecs.Bits() == 0 {
		return netutil.ZeroPrefix(fam)
	}

	var l *geoip.Location
	if ecs != nil {
		l = locOf(ecs.Addr())
	}
	if l == nil {
		l = locOf(client)
	}
	if l != nil {
		if sp, ok := subnetOfLoc(l, fs); ok {
			return sp
		}
	}

	return netutil.ZeroPrefix(fam)
}

// ---- normalisation for comparisons ----

func rrKey(rr dns.RR) string {
	c := dns.Copy(rr)
	c.Header().Ttl = 0

	// Owner names compare case-insensitively.
	c.Header().Name = strings.ToLower(c.Header().Name)

	return c.String()
}

func section(rrs []dns.RR, skipOPT bool) (out []string) {
	for _, rr := range rrs {
		if skipOPT && rr.Header().Rrtype == dns.TypeOPT {
			continue
		}
		out = append(out, rrKey(rr))
	}

	return out
}

func optDesc(m *dns.Msg) string {
	opt := m.IsEdns0()
	if opt == nil {
		return "no-opt"
	}
	var parts []string
	for _, o := range opt.Option {
		parts = append(parts, o.String())
	}

	return fmt.Sprintf("opt(do=%v,%v)", opt.Do(), parts)
}

func describe(m *dns.Msg) string {
	if m == nil {
		return "<no response>"
	}
	q := "<none>"
	if len(m.Question) == 1 {
		q = fmt.Sprintf("%s %d %d", m.Question[0].Name, m.Question[0].Qtype, m.Question[0].Qclass)
	}

	return fmt.Sprintf("id=%d rcode=%d qr=%v aa=%v tc=%v rd=%v ra=%v ad=%v cd=%v q=[%s] an=%v ns=%v ex=%v %s",
		m.Id, m.Rcode, m.Response, m.Authoritative, m.Truncated, m.RecursionDesired, m.RecursionAvailable,
		m.AuthenticatedData, m.CheckingDisabled, q, section(m.Answer, false), section(m.Ns, false),
		section(m.Extra, true), optDesc(m))
}

// describeNoOPT is describe without the OPT pseudo-record, which is
// hop-by-hop data the server layer rewrites anyway (C08) and whose ECS
// content is C05's subject.
func describeNoOPT(m *dns.Msg) string {
	d := describe(m)
	if i := strings.LastIndex(d, "] "); i >= 0 {
		return d[:i+1]
	}

	return d
}

// optFlagsOnWire is what the servers' normalisation leaves of the reserved
// flags of the response's OPT record, if it has one: those of the upper octet
// (DO, the topmost, is left out: it echoes what the upstream was asked, and
// that is hop-by-hop business).
func optFlagsOnWire(m *dns.Msg) string {
	opt := m.IsEdns0()
	if opt == nil {
		return "no OPT"
	}

	return fmt.Sprintf("%#04x", opt.Hdr.Ttl&0x7f00)
}

func hasType(rrs []dns.RR, t uint16) bool {
	for _, rr := range rrs {
		if rr.Header().Rrtype == t {
			return true
		}
	}

	return false
}

// ---- stacks ----

type stack interface {
	serve(client netip.Addr, req *dns.Msg) (resp *dns.Msg, err error)
	fresh() stack
	calls() int
	lastCall() upCall
}

type simpleStack struct {
	up       *upstream
	h        dnsserver.Handler
	minTTL   time.Duration
	override bool
	count    int
}

func newSimple(minTTL time.Duration, override bool, count int) (st *simpleStack) {
	st = &simpleStack{up: &upstream{}, minTTL: minTTL, override: override, count: count}
	mw := cache.NewMiddleware(&cache.MiddlewareConfig{Count: count, MinTTL: minTTL, OverrideTTL: override})
	st.h = mw.Wrap(st.up)

	return st
}

func (st *simpleStack) serve(client netip.Addr, req *dns.Msg) (resp *dns.Msg, err error) {
	rw := dnsserver.NewNonWriterResponseWriter(
		&net.UDPAddr{IP: net.IP{198, 18, 0, 1}, Port: 53},
		&net.UDPAddr{IP: client.AsSlice(), Port: 3333},
	)
	err = st.h.ServeDNS(context.Background(), rw, req.Copy())

	return taken(rw.Msg()), err
}

// taken returns what a transport would have sent and then treats the written
// message as the servers' writers do: as their own, to be changed in place.
func taken(m *dns.Msg) (sent *dns.Msg) {
	if m == nil {
		return nil
	}
	sent = world.DeepCopy(m)
	world.Scribble(m)

	return sent
}

func (st *simpleStack) fresh() stack     { return newSimple(st.minTTL, st.override, st.count) }
func (st *simpleStack) calls() int       { return len(st.up.calls) }
func (st *simpleStack) lastCall() upCall { return st.up.calls[len(st.up.calls)-1] }

type ecsStack struct {
	up  *upstream
	w   *world.World
	cm  *world.CacheManager
	ec  *world.ErrColl
	twn *ecsStack
}

func newECS(minTTL time.Duration, override bool, count int) (st *ecsStack) {
	st = &ecsStack{up: &upstream{}, cm: &world.CacheManager{}, ec: &world.ErrColl{}}
	w, err := world.New(&world.Config{
		Cache: &dnssvc.CacheConfig{
			Type: dnssvc.CacheTypeECS, ECSCount: count, NoECSCount: count, MinTTL: minTTL, OverrideCacheTTL: override,
		},
		Upstream:     st.up,
		GeoIP:        geo{},
		CacheManager: st.cm,
		ErrColl:      st.ec,
	})
	if err != nil {
		panic(err)
	}
	st.w = w

	return st
}

func (st *ecsStack) serve(client netip.Addr, req *dns.Msg) (resp *dns.Msg, err error) {
	out, err := st.w.Serve(context.Background(), &world.Request{
		Remote:   netip.AddrPortFrom(client, 3333),
		Msg:      req.Copy(),
		Scribble: true,
	})
	if out != nil && len(out.Msgs) > 1 {
		return nil, fmt.Errorf("%d responses written", len(out.Msgs))
	}
	if out != nil && len(out.Msgs) == 1 {
		resp = out.Msgs[0]
	}

	return resp, err
}

// fresh returns the twin stack with its caches emptied: a freshly started
// resolver with the same configuration.
func (st *ecsStack) fresh() stack {
	st.twn.cm.ClearAll()

	return st.twn
}

func (st *ecsStack) calls() int       { return len(st.up.calls) }
func (st *ecsStack) lastCall() upCall { return st.up.calls[len(st.up.calls)-1] }

// mwStack is the ECS cache middleware alone, given the request information the
// rate-limit middleware would compute, without the initial middleware above
// it (which forces the AD bit of every request): deviations the full stack
// masks are visible here.
type mwStack struct {
	up  *upstream
	h   dnsserver.Handler
	cm  *world.CacheManager
	twn *mwStack
}

func newMW(minTTL time.Duration, override bool, count int) (st *mwStack) {
	st = &mwStack{up: &upstream{}, cm: &world.CacheManager{}}
	mw := ecscache.NewMiddleware(&ecscache.MiddlewareConfig{
		Cloner:       agdtest.NewCloner(),
		Logger:       slog.New(slog.DiscardHandler),
		CacheManager: st.cm,
		GeoIP:        geo{},
		MinTTL:       minTTL,
		NoECSCount:   count,
		ECSCount:     count,
		OverrideTTL:  override,
	})
	st.h = mw.Wrap(st.up)

	return st
}

func (st *mwStack) serve(client netip.Addr, req *dns.Msg) (resp *dns.Msg, err error) {
	req = req.Copy()
	q := req.Question[0]
	ri := &agd.RequestInfo{
		Host:     strings.ToLower(strings.TrimSuffix(q.Name, ".")),
		QType:    q.Qtype,
		QClass:   q.Qclass,
		RemoteIP: client,
		Location: locOf(client),
	}
	subnet, scope, err := dnsmsg.ECSFromMsg(req)
	if err != nil {
		// The rate-limit middleware answers these with FORMERR itself.
		r := (&dns.Msg{}).SetRcode(req, dns.RcodeFormatError)

		return r, nil
	} else if subnet != (netip.Prefix{}) {
		ri.ECS = &dnsmsg.ECS{Location: locOf(subnet.Addr()), Subnet: subnet, Scope: scope}
	}

	rw := dnsserver.NewNonWriterResponseWriter(
		&net.UDPAddr{IP: net.IP{198, 18, 0, 1}, Port: 53},
		&net.UDPAddr{IP: client.AsSlice(), Port: 3333},
	)
	err = st.h.ServeDNS(agd.ContextWithRequestInfo(context.Background(), ri), rw, req)

	return taken(rw.Msg()), err
}

func (st *mwStack) fresh() stack {
	st.twn.cm.ClearAll()

	return st.twn
}

func (st *mwStack) calls() int       { return len(st.up.calls) }
func (st *mwStack) lastCall() upCall { return st.up.calls[len(st.up.calls)-1] }

// ---- the run ----

var clientPool = []string{"192.0.2.10", "192.0.2.20", "198.51.100.5", "203.0.113.9", "192.168.77.7", "2001:db8:a::1", "2001:db8:b::1", "198.18.5.5"}

type ecsChoice struct {
	// twice: the valid option is followed by a second one that carries the
	// client's own address.
	twice  bool
	name   string
	fam    uint16
	addr   net.IP
	mask   uint8
	valid  bool
	prefix netip.Prefix
}

func ecsChoices(client netip.Addr) (cs []ecsChoice) {
	v4 := func(s string, mask uint8) ecsChoice {
		p := netip.MustParsePrefix(fmt.Sprintf("%s/%d", s, mask))

		return ecsChoice{name: p.String(), fam: 1, addr: net.ParseIP(s).To4(), mask: mask, valid: true, prefix: p}
	}
	v6 := func(s string, mask uint8) ecsChoice {
		p := netip.MustParsePrefix(fmt.Sprintf("%s/%d", s, mask))

		return ecsChoice{name: p.String(), fam: 2, addr: net.ParseIP(s), mask: mask, valid: true, prefix: p}
	}

	cs = []ecsChoice{
		{name: "absent"},
		v4("192.0.2.0", 24), v4("198.51.100.0", 24), v4("0.0.0.0", 0), v4("203.0.113.0", 24),
		v6("2001:db8:a::", 48), v6("2001:db8:b::", 56), v6("::", 0), v4("198.18.5.0", 24),
		{name: "bad-family", fam: 3, addr: net.IP{1, 2, 3, 0}, mask: 24},
		// Family zero without address or prefix, the only form of it the
		// wire format admits: no family, hence no valid option.
		{name: "family-zero", fam: 0},
		{name: "bits-beyond-prefix", fam: 1, addr: net.IP{192, 0, 2, 77}, mask: 24},
		{name: "mask-too-long", fam: 1, addr: net.IP{192, 0, 2, 0}, mask: 33},
	}
	if client.Is4() {
		cs = append(cs, v4(client.String(), 32))
	} else {
		cs = append(cs, v6(client.String(), 128))
	}
	// A query with two ECS options, the second with the client's address.
	two := cs[1]
	two.twice, two.name = true, two.name+"+own-address"
	cs = append(cs, two)

	return cs
}

type popKey struct {
	name   string
	qtype  uint16
	qclass uint16
	do     bool
	subnet string
}

func run(s *kernel.Sim, prop, cfg string) {
	if cfg == "geofile" {
		runGeoFile(s)

		return
	}

	t := s.T
	override := t.Chance(1, 4, "override-ttl")
	minTTL := kernel.Pick(t, []time.Duration{10 * time.Second, 60 * time.Second}, "min-ttl")

	var st stack
	// The capacity: roomy, or so small that entries are evicted all the time.
	count := kernel.Pick(t, []int{100, 100, 1, 2, 3}, "cache-size")
	if cfg == "simple" {
		st = newSimple(minTTL, override, count)
	} else if cfg == "ecsmw" {
		e := newMW(minTTL, override, count)
		e.twn = newMW(minTTL, override, count)
		st = e
	} else {
		e := newECS(minTTL, override, count)
		e.twn = newECS(minTTL, override, count)
		st = e
	}
	s.Logf("config cache=%s override=%v minTTL=%v size=%d", cfg, override, minTTL, count)

	// Swarm: a per-run subset of names, clients and qtypes.
	var names []string
	for _, n := range nameList {
		if t.Chance(1, 3, "use-name") {
			names = append(names, n)
		}
	}
	for _, p := range lookAlikes {
		// Look-alikes come in pairs.
		for k := range p {
			if slices.Contains(names, p[k]) && !slices.Contains(names, p[1-k]) && t.Chance(3, 4, "use-look-alike") {
				names = append(names, p[1-k])
			}
		}
	}
	if len(names) == 0 {
		names = []string{"ok5.test."}
	}
	var clients []netip.Addr
	for _, c := range clientPool {
		if prop == "C04" && expectedSubnet(netip.MustParseAddr(c), nil).Bits() == 0 {
			// C04 compares with a fresh resolver asked by the same client;
			// clients without a coarse subnet share scope-zero answers with
			// everybody, which is C05's business, so they stay out of C04.
			continue
		}
		if t.Chance(1, 2, "use-client") {
			clients = append(clients, netip.MustParseAddr(c))
		}
	}
	if len(clients) == 0 {
		clients = []netip.Addr{netip.MustParseAddr(clientPool[0])}
	}

	populated := map[popKey]time.Time{}
	base := time.Now()
	n := t.Range(3, 40, "requests")
	var prevName string
	var prevType uint16
	var prevClient netip.Addr
	var prevECS ecsChoice
	var prevDO bool
	for i := 0; i < n; i++ {
		name := kernel.Pick(t, names, "name")
		repeat := prevName != "" && t.Chance(1, 2, "repeat-question")
		if repeat {
			// Hits need repeated questions.
			name = prevName
		}
		sh := shapes[name]
		lowest := time.Duration(5) * time.Second
		if len(sh.ttls) > 0 {
			lowest = time.Duration(sh.ttls[0]) * time.Second
		}
		gap := kernel.Pick(t, []time.Duration{
			0, 100 * time.Millisecond, 400 * time.Millisecond, 500 * time.Millisecond, 600 * time.Millisecond,
			time.Second, lowest - 600*time.Millisecond, lowest - 400*time.Millisecond, lowest - time.Nanosecond,
			lowest, lowest + time.Nanosecond, 2 * lowest, 29 * time.Second, 31 * time.Second, 5 * time.Minute,
		}, "gap")
		if gap > time.Hour {
			// Keep the simulated clock far from overflow.
			gap = time.Hour
		}
		if gap > 0 {
			time.Sleep(gap)
		}

		client := kernel.Pick(t, clients, "client")
		sameKey := repeat && t.Chance(2, 3, "repeat-same-key")
		if sameKey {
			// Same client, ECS and DO: only ID, case, AD and CD vary, so the
			// request hits the entry the previous one used or populated.
			client = prevClient
		}
		qtype := kernel.Pick(t, []uint16{dns.TypeA, dns.TypeA, dns.TypeAAAA, dns.TypeTXT, dns.TypeMX}, "qtype")
		if repeat && t.Chance(3, 4, "repeat-type") {
			qtype = prevType
		}
		prevName, prevType = name, qtype
		qclass := uint16(dns.ClassINET)
		if cfg == "simple" {
			// In the full stack CHAOS-class queries additionally get locally
			// generated debug records (C07's subject), so other classes are
			// exercised against the simple cache only.
			qclass = kernel.Pick(t, []uint16{dns.ClassINET, dns.ClassINET, dns.ClassINET, dns.ClassCHAOS}, "qclass")
		}
		qname := name
		if t.Chance(1, 4, "mixed-case") {
			qname = strings.ToUpper(name[:2]) + name[2:]
		}

		req := &dns.Msg{}
		req.Id = uint16(1000 + i)
		req.RecursionDesired = true
		req.Question = []dns.Question{{Name: qname, Qtype: qtype, Qclass: qclass}}
		req.AuthenticatedData = t.Chance(1, 3, "ad")
		req.CheckingDisabled = t.Chance(1, 4, "cd")
		do := t.Chance(1, 3, "do")
		if sameKey {
			do = prevDO
		}
		var ecs ecsChoice
		if cfg != "simple" {
			choices := ecsChoices(client)
			if prop == "C04" {
				var keep []ecsChoice
				for _, c := range choices {
					if !c.valid || c.prefix.Bits() == 0 || expectedSubnet(client, &c.prefix).Bits() != 0 {
						keep = append(keep, c)
					}
				}
				choices = keep
			}
			ecs = kernel.Pick(t, choices, "ecs")
			if sameKey {
				ecs = prevECS
			}
		}
		prevClient, prevECS, prevDO = client, ecs, do
		if do || ecs.name != "absent" && ecs.name != "" || t.Chance(1, 4, "opt") {
			req.SetEdns0(1232, do)
			if ecs.name != "absent" && ecs.name != "" {
				opt := req.IsEdns0()
				opt.Option = append(opt.Option, &dns.EDNS0_SUBNET{
					Code: dns.EDNS0SUBNET, Family: ecs.fam, SourceNetmask: ecs.mask, Address: ecs.addr,
				})
				if ecs.twice {
					own := &dns.EDNS0_SUBNET{Code: dns.EDNS0SUBNET, Family: 1, SourceNetmask: 32, Address: client.AsSlice()}
					if client.Is6() {
						own.Family, own.SourceNetmask = 2, 128
					}
					opt.Option = append(opt.Option, own)
				}
			}
		}

		now := time.Now()
		before := st.calls()
		resp, err := st.serve(client, req)
		hit := st.calls() == before
		s.Logf("req %d t=%v +%v %s %s qt=%d qc=%d do=%v ad=%v ecs=%s -> hit=%v err=%v %s",
			i, now.Sub(base), gap, client, qname, qtype, qclass, do, req.AuthenticatedData, ecs.name, hit, err, describe(resp))

		malformed := cfg != "simple" && ecs.name != "absent" && !ecs.valid
		if malformed {
			if prop == "C05" {
				if !hit {
					s.Failf("C05/malformed-forwarded", "query with a malformed ECS option reached the upstream",
						"req %d ecs=%s", i, ecs.name)

					return
				}
				if resp == nil || resp.Rcode != dns.RcodeFormatError {
					s.Failf("C05/malformed-not-formerr", "malformed ECS option not answered with FORMERR",
						"req %d ecs=%s: %s", i, ecs.name, describe(resp))

					return
				}
				s.Probe("malformed-ecs-formerr")
			}

			continue
		}

		if err != nil || resp == nil {
			s.Failf(prop+"/no-answer", "stack returned an error or no response", "req %d: err=%v resp=%v", i, err, resp != nil)

			return
		}

		var ecsP *netip.Prefix
		if ecs.valid {
			ecsP = &ecs.prefix
		}
		wantSubnet := netip.Prefix{}
		if cfg != "simple" {
			wantSubnet = expectedSubnet(client, ecsP)
		}

		pk := popKey{name: name, qtype: qtype, qclass: qclass, do: do}
		if cfg != "simple" && sh.ecs {
			pk.subnet = wantSubnet.String()
		} else if cfg != "simple" {
			// Answers with scope zero are shared by family (and opt-out).
			_, fs := famOf(wantSubnet.Addr())
			pk.subnet = "zero/" + fs + fmt.Sprint(ecsP != nil && ecsP.Bits() == 0)
		}

		if !hit {
			populated[pk] = now
			s.Probe("miss")
			if prop == "C05" {
				checkUpstreamSide(s, i, st.lastCall(), client, ecsP, wantSubnet)
			}
		}

		if prop == "C05" {
			if hit {
				s.MarkNontrivial()
				s.Probe("hit")
			}
			checkClientSide(s, i, req, resp, sh, ecs, wantSubnet, hit)
			if s.Failed() != nil {
				return
			}

			continue
		}

		// ---- C04 ----
		tw := st.fresh()
		twBefore := tw.calls()
		fresh, ferr := tw.serve(client, req)
		if ferr != nil || fresh == nil {
			s.Failf("C04/twin", "fresh twin failed", "req %d: %v", i, ferr)

			return
		}

		if hit && tw.calls() == twBefore {
			// Answered locally (e.g. CHAOS debug queries): neither stack asked
			// the upstream, so this is not a cache hit.
			if a, b := describeNoOPT(resp), describeNoOPT(fresh); a != b {
				s.Failf("C04/local-differs", "locally generated answer differs between warm and fresh resolver",
					"req %d:\n got   %s\n fresh %s", i, a, b)

				return
			}

			continue
		}

		if !hit {
			// A miss must of course equal the fresh answer too.
			if a, b := describeNoOPT(resp), describeNoOPT(fresh); a != b {
				s.Failf("C04/miss-differs", "answer computed on a cache miss differs from a fresh resolver's",
					"req %d:\n got   %s\n fresh %s", i, a, b)

				return
			}

			continue
		}

		s.Probe("hit")
		s.MarkNontrivial()
		popAt, known := populated[pk]
		age := now.Sub(popAt)

		a, b := describeNoOPT(resp), describeNoOPT(fresh)
		if a != b {
			s.Failf("C04/hit-differs", "cached answer differs from a fresh one",
				"req %d (age %v):\n cached %s\n fresh  %s", i, age, a, b)

			return
		}

		// The OPT record itself is rewritten by the server layer, but not
		// all of it: of its flags field the upper octet goes out as the
		// handler left it.  Its reserved bits are part of the answer the
		// client sees.  (Judged when both answers
		// have an OPT record of the handler's: where one has none, the
		// server layer makes one.)
		if fa, fb := optFlagsOnWire(resp), optFlagsOnWire(fresh); fa != fb && resp.IsEdns0() != nil && fresh.IsEdns0() != nil {
			s.Failf("C04/hit-differs", "cached answer differs from a fresh one in the EDNS flags that reach the client",
				"req %d (age %v): %s: cached %s, fresh %s", i, age, a, fa, fb)

			return
		}

		if !known {
			s.Failf("C04/hit-unpopulated", "answer served from cache for a question that never populated it",
				"req %d key %+v: %s", i, pk, a)

			return
		}

		// Cacheability, from the statement: complete NOERROR/NODATA, NXDOMAIN,
		// short-lived SERVFAIL only.
		cacheable := true
		switch {
		case fresh.Truncated:
			cacheable = false
		case fresh.Rcode == dns.RcodeSuccess && !hasType(fresh.Answer, qtype):
			// No data of the type asked for (aliases alone are none):
			// complete only with the zone's SOA.
			hasSOA := false
			for _, rr := range fresh.Ns {
				if rr.Header().Rrtype == dns.TypeSOA {
					hasSOA = true
				}
			}
			cacheable = hasSOA
		case fresh.Rcode == dns.RcodeSuccess, fresh.Rcode == dns.RcodeNameError:
		case fresh.Rcode == dns.RcodeServerFailure:
			if age > 30*time.Second {
				s.Failf("C04/servfail-too-long", "SERVFAIL served from cache after more than 30s",
					"req %d age %v", i, age)

				return
			}
		default:
			cacheable = false
		}
		if !cacheable {
			s.Failf("C04/uncacheable-cached", "an answer that must not be cached was served from cache",
				"req %d: %s", i, a)

			return
		}

		// TTL bound and expiry, against the fresh answer's TTLs.
		freshTTL := map[string]uint32{}
		lowestFresh := uint32(1<<32 - 1)
		for _, rrs := range [][]dns.RR{fresh.Answer, fresh.Ns, fresh.Extra} {
			for _, rr := range rrs {
				if rr.Header().Rrtype == dns.TypeOPT {
					continue
				}
				ttl := rr.Header().Ttl
				freshTTL[rrKey(rr)] = ttl
				if soa, ok := rr.(*dns.SOA); ok && soa.Minttl < ttl && soa.Minttl > 0 {
					ttl = soa.Minttl
				}
				if ttl < lowestFresh {
					lowestFresh = ttl
				}
			}
		}

		if lowestFresh != 1<<32-1 && fresh.Rcode != dns.RcodeServerFailure {
			exp := time.Duration(lowestFresh) * time.Second
			if override && exp < minTTL {
				exp = minTTL
			}
			if age > exp {
				s.Failf("C04/served-after-expiry", "answer served from cache after its lowest TTL had run out",
					"req %d: age %v > lowest ttl %v: %s", i, age, exp, a)

				return
			}
			if exp-age < time.Second {
				s.Probe("hit-in-last-second")
			}
		}

		for _, rrs := range [][]dns.RR{resp.Answer, resp.Ns, resp.Extra} {
			for _, rr := range rrs {
				if rr.Header().Rrtype == dns.TypeOPT {
					continue
				}
				orig := float64(freshTTL[rrKey(rr)])
				left := orig - age.Seconds()
				bound := uint32(0)
				if left > 0 {
					bound = uint32(left + 0.5)
				}
				if rr.Header().Ttl > bound {
					w := "TTL served from cache exceeds original TTL minus age"
					if left < 1 {
						w += " (entry in its last second)"
					}
					s.Failf("C04/ttl-bound", w,
						"req %d: %s has ttl %d after %v in cache; original %d, bound %d",
						i, rrKey(rr), rr.Header().Ttl, age, uint32(orig), bound)

					return
				}
			}
		}
	}
}

func checkUpstreamSide(s *kernel.Sim, i int, c upCall, client netip.Addr, ecs *netip.Prefix, want netip.Prefix) {
	if !c.hasECS {
		s.Failf("C05/upstream-no-ecs", "upstream query carries no ECS option", "req %d", i)

		return
	}

	if len(c.allECS) > 1 {
		s.Failf("C05/upstream-second-option", "upstream query carries a second ECS option, as the client supplied it",
			"req %d client %s: upstream got ECS options %v", i, client, c.allECS)

		return
	}

	if c.subnet != want {
		w := "upstream ECS is not the coarse subnet of the client's location"
		if c.subnet.Contains(client) && c.subnet.Bits() > 0 {
			w = "upstream ECS reveals the client's address"
		} else if ecs != nil && c.subnet == *ecs && ecs.Bits() > 0 {
			w = "upstream ECS is the subnet the client supplied"
		} else if ecs != nil && ecs.Bits() == 0 {
			w = "client opted out with /0 but upstream got a subnet"
		}
		s.Failf("C05/upstream-subnet", w, "req %d client %s ecs %v: upstream got %s, expected %s", i, client, ecs, c.subnet, want)
	}
}

func checkClientSide(s *kernel.Sim, i int, req, resp *dns.Msg, sh shape, ecs ecsChoice, want netip.Prefix, hit bool) {
	// Tag: ECS-dependent answers must have been computed for this client's
	// subnet.
	if sh.ecs {
		t1, t2, t3 := tagFor("subnet:" + want.String())
		fam, _ := famOf(want.Addr())
		z1, z2, z3 := tagFor("subnet:" + netutil.ZeroPrefix(fam).String())
		for _, rr := range append(append([]dns.RR{}, resp.Answer...), resp.Ns...) {
			var got [3]byte
			switch rr := rr.(type) {
			case *dns.SOA:
				if rr.Serial>>24 != 1 {
					// Computed without a subnet.
					continue
				}
				got = [3]byte{byte(rr.Serial >> 16), byte(rr.Serial >> 8), byte(rr.Serial)}
			case *dns.A:
				ip := rr.A.To4()
				got = [3]byte{ip[1], ip[2], ip[3]}
			case *dns.AAAA:
				got = [3]byte{rr.AAAA[5], rr.AAAA[6], rr.AAAA[7]}
			default:
				continue
			}
			if got == [3]byte{z1, z2, z3} {
				// An answer the upstream gave for the zero prefix has scope
				// zero: it is valid for every client of that family.
				continue
			}
			if got != [3]byte{t1, t2, t3} {
				w := "client served an answer computed for another subnet"
				if ecs.valid && ecs.prefix.Bits() == 0 {
					w = "opted-out client served an answer cached for a subnet"
				}
				s.Failf("C05/wrong-region", w,
					"req %d (hit=%v): answer %s carries tag %x, expected tag %x of subnet %s",
					i, hit, rr, got, [3]byte{t1, t2, t3}, want)

				return
			}
			if hit {
				s.Probe("ecs-dependent-hit-right-region")
			}
		}
	}

	// ECS option in the response exactly when the query carried a valid one.
	var respECS *dns.EDNS0_SUBNET
	if opt := resp.IsEdns0(); opt != nil {
		for _, o := range opt.Option {
			if e, ok := o.(*dns.EDNS0_SUBNET); ok {
				respECS = e
			}
		}
	}

	if !ecs.valid {
		if respECS != nil {
			s.Failf("C05/ecs-unsolicited", "response carries an ECS option although the query carried none",
				"req %d (hit=%v): %s", i, hit, respECS)
		}

		return
	}

	if respECS == nil {
		s.Failf("C05/ecs-missing", "response lacks the ECS option although the query carried a valid one",
			"req %d (hit=%v) ecs=%s", i, hit, ecs.name)

		return
	}

	ip, _ := netip.AddrFromSlice(respECS.Address)
	if respECS.Family == 1 {
		ip = ip.Unmap()
	}
	got := netip.PrefixFrom(ip, int(respECS.SourceNetmask))
	if got != ecs.prefix || respECS.SourceScope != respECS.SourceNetmask {
		s.Failf("C05/ecs-echo", "response ECS does not echo the client's prefix with scope = source length",
			"req %d (hit=%v): got %s scope %d, client sent %s", i, hit, got, respECS.SourceScope, ecs.prefix)
	}
}

func TestWorker(t *testing.T) {
	kernel.WorkerMain(t, &kernel.Engine{Name: "cachesim", Run: run})
}
