package cachesim

import (
	"context"
	"fmt"
	"io"
	"log/slog"
	"net"
	"net/netip"
	"os"
	"path/filepath"
	"sort"
	"sync"
	"time"

	"github.com/AdguardTeam/AdGuardDNS/internal/dnssvc"
	"github.com/AdguardTeam/AdGuardDNS/internal/geoip"
	"github.com/AdguardTeam/AdGuardDNS/verif/kernel"
	"github.com/AdguardTeam/AdGuardDNS/verif/world"
	"github.com/AdguardTeam/golibs/container"
	"github.com/AdguardTeam/golibs/netutil"
	"github.com/miekg/dns"
	"github.com/oschwald/maxminddb-golang"
)

// ---- C05 with the real file-based GeoIP database (cfg "geofile") ----
//
// The other sub-batches put a transparent table behind geoip.Interface.  Here
// the real geoip.File runs on the MaxMind test databases of the repository
// (internal/geoip/testdata): location look-ups with their caches, the scan
// that chooses a subnet per autonomous system and per country, and refreshes
// after the country database was replaced.
//
// The oracle does not model how File chooses its subnets.  It reads the same
// databases directly and judges relations the statement asks for:
//
//   - what goes upstream is the zero prefix or a subnet whose own country or
//     autonomous system (looked up directly) is the client's (or its ECS
//     option's), or the top autonomous system configured for that country;
//     never the prefix the client supplied, never a host address;
//   - a client that declined with /0 gets a /0 upstream query and no answer
//     that was computed for a subnet;
//   - an answer taken from the cache was computed for a subnet that stands in
//     the same relation to the client that receives it.

type geoRecord struct {
	country string
	asn     uint32
}

type geoDB struct {
	asnBytes, cityBytes, countryBytes []byte
	asn, city, country                *maxminddb.Reader

	// candidates are addresses whose whole /24 (or /56) lies inside one
	// record of every database (File caches locations per /24 and /56).
	candidates []netip.Addr

	// nearPairs are pairs of usable addresses of different countries that
	// are close to each other: in one /48 (IPv6) or one /16 (IPv4).
	nearPairs [][2]netip.Addr
	asns       []uint32
	countries  []string
}

var (
	geoOnce sync.Once
	geoData *geoDB
)

type asnRes struct {
	ASN uint32 `maxminddb:"autonomous_system_number"`
}

type ctryRes struct {
	Country struct {
		ISOCode string `maxminddb:"iso_code"`
	} `maxminddb:"country"`
}

func loadGeoDB() (db *geoDB) {
	geoOnce.Do(func() {
		repo := os.Getenv("VERIF_REPO")
		if repo == "" {
			repo = "/repo"
		}
		dir := filepath.Join(repo, "internal", "geoip", "testdata")
		db := &geoDB{}
		read := func(name string) (b []byte, r *maxminddb.Reader) {
			b, err := os.ReadFile(filepath.Join(dir, name))
			if err != nil {
				panic(err)
			}
			r, err = maxminddb.FromBytes(b)
			if err != nil {
				panic(err)
			}

			return b, r
		}
		db.asnBytes, db.asn = read("GeoIP2-ISP-Test.mmdb")
		db.cityBytes, db.city = read("GeoIP2-City-Test.mmdb")
		db.countryBytes, db.country = read("GeoIP2-Country-Test.mmdb")

		uniform := func(ip netip.Addr) bool {
			want := 24
			if ip.Is6() {
				want = 56
			}
			for _, r := range []*maxminddb.Reader{db.asn, db.city, db.country} {
				var v any
				nw, _, err := r.LookupNetwork(ip.AsSlice(), &v)
				if err != nil || nw == nil {
					return false
				}
				ones, bits := nw.Mask.Size()
				if bits == 128 && ip.Is4() {
					ones -= 96
				}
				if ones > want {
					return false
				}
			}

			return true
		}

		groups := map[string][]netip.Addr{}
		type located struct {
			ip   netip.Addr
			ctry string
		}
		near := map[netip.Prefix][]located{}
		asns := map[uint32]bool{}
		countries := map[string]bool{}
		for _, r := range []*maxminddb.Reader{db.asn, db.city, db.country} {
			nets := r.Networks(maxminddb.SkipAliasedNetworks)
			for nets.Next() {
				var v any
				nw, err := nets.Network(&v)
				if err != nil {
					panic(err)
				}
				ip, ok := netip.AddrFromSlice(nw.IP)
				if !ok {
					continue
				}
				ip = ip.Unmap().Next()
				if !uniform(ip) {
					continue
				}
				rec := db.direct(ip, true)
				if rec.country == "" && rec.asn == 0 {
					continue
				}
				if rec.asn != 0 {
					asns[rec.asn] = true
				}
				if rec.country != "" {
					countries[rec.country] = true
					bits := 16
					if ip.Is6() {
						bits = 48
					}
					wide, _ := ip.Prefix(bits)
					near[wide] = append(near[wide], located{ip, rec.country})
				}
				fam := "4"
				if ip.Is6() {
					fam = "6"
				}
				k := fmt.Sprintf("%s/%d/%s", rec.country, rec.asn, fam)
				if len(groups[k]) < 2 {
					dup := false
					for _, o := range groups[k] {
						dup = dup || o == ip
					}
					if !dup {
						groups[k] = append(groups[k], ip)
					}
				}
			}
		}
		var wides []netip.Prefix
		for w := range near {
			wides = append(wides, w)
		}
		sort.Slice(wides, func(i, j int) bool { return wides[i].String() < wides[j].String() })
		for _, w := range wides {
			ls := near[w]
			for _, o := range ls[1:] {
				if o.ctry != ls[0].ctry && o.ip != ls[0].ip {
					db.nearPairs = append(db.nearPairs, [2]netip.Addr{ls[0].ip, o.ip})

					break
				}
			}
		}
		var keys []string
		for k := range groups {
			keys = append(keys, k)
		}
		sort.Strings(keys)
		for _, k := range keys {
			db.candidates = append(db.candidates, groups[k]...)
		}
		for a := range asns {
			db.asns = append(db.asns, a)
		}
		sort.Slice(db.asns, func(i, j int) bool { return db.asns[i] < db.asns[j] })
		for c := range countries {
			db.countries = append(db.countries, c)
		}
		sort.Strings(db.countries)
		geoData = db
	})

	return geoData
}

// direct looks ip up in the databases themselves.
func (db *geoDB) direct(ip netip.Addr, city bool) (rec geoRecord) {
	// An IPv4 address written as an IPv6 one is that IPv4 address.
	ip = ip.Unmap()
	var a asnRes
	_ = db.asn.Lookup(ip.AsSlice(), &a)
	var c ctryRes
	r := db.country
	if city {
		r = db.city
	}
	_ = r.Lookup(ip.AsSlice(), &c)

	return geoRecord{country: c.Country.ISOCode, asn: a.ASN}
}

var geoNames = []string{"e5.test.", "e300.test.", "enx.test.", "ok300.test."}

func runGeoFile(s *kernel.Sim) {
	t := s.T
	db := loadGeoDB()
	if len(db.candidates) < 8 {
		panic(fmt.Sprintf("geofile: only %d usable addresses in the test databases", len(db.candidates)))
	}

	dir, err := os.MkdirTemp(os.TempDir(), "geofile")
	if err != nil {
		panic(err)
	}
	defer func() { _ = os.RemoveAll(dir) }()

	asnPath, ctryPath := filepath.Join(dir, "asn.mmdb"), filepath.Join(dir, "country.mmdb")
	city := t.Chance(1, 2, "city-db")
	writeCtry := func() {
		b := db.countryBytes
		if city {
			b = db.cityBytes
		}
		tmp := ctryPath + ".tmp"
		if werr := os.WriteFile(tmp, b, 0o600); werr != nil {
			panic(werr)
		}
		if werr := os.Rename(tmp, ctryPath); werr != nil {
			panic(werr)
		}
	}
	if werr := os.WriteFile(asnPath, db.asnBytes, 0o600); werr != nil {
		panic(werr)
	}
	writeCtry()

	// The configured top autonomous systems: a subset of those in the
	// database, and for some countries one of them.
	top := container.NewMapSet[geoip.ASN]()
	for _, a := range db.asns {
		if t.Chance(1, 2, "top-asn") {
			top.Add(geoip.ASN(a))
		}
	}
	ctryTop := map[geoip.Country]geoip.ASN{}
	for _, c := range db.countries {
		if t.Chance(1, 4, "country-top") {
			a := geoip.ASN(kernel.Pick(t, db.asns, "country-top-asn"))
			ctryTop[geoip.Country(c)] = a
			top.Add(a)
		}
	}

	cm := &world.CacheManager{}
	gf := geoip.NewFile(&geoip.FileConfig{
		Logger:         slog.New(slog.NewTextHandler(io.Discard, nil)),
		CacheManager:   cm,
		AllTopASNs:     top,
		CountryTopASNs: ctryTop,
		ASNPath:        asnPath,
		CountryPath:    ctryPath,
		HostCacheCount: kernel.Pick(t, []int{0, 10}, "host-cache"),
		IPCacheCount:   kernel.Pick(t, []int{1, 2, 100}, "ip-cache"),
	})
	if rerr := gf.Refresh(context.Background()); rerr != nil {
		panic(rerr)
	}

	up := &upstream{}
	count := kernel.Pick(t, []int{100, 100, 1, 3}, "cache-size")
	w, err := world.New(&world.Config{
		Cache: &dnssvc.CacheConfig{
			Type: dnssvc.CacheTypeECS, ECSCount: count, NoECSCount: count, MinTTL: 10 * time.Second,
		},
		Upstream:     up,
		GeoIP:        gf,
		CacheManager: cm,
		ErrColl:      &world.ErrColl{},
	})
	if err != nil {
		panic(err)
	}

	// Swarm: a few clients per run, with and without a country, several of
	// one country where there are.
	var withCtry, asnOnly []netip.Addr
	for _, c := range db.candidates {
		if db.direct(c, true).country != "" || db.direct(c, false).country != "" {
			withCtry = append(withCtry, c)
		} else {
			asnOnly = append(asnOnly, c)
		}
	}
	var clients []netip.Addr
	seen := map[netip.Addr]bool{}
	for k, nc := 0, t.Range(2, 8, "clients"); k < nc; k++ {
		pool := withCtry
		if t.Chance(1, 3, "client-asn-only") {
			pool = asnOnly
		}
		c := pool[t.Choose(len(pool), "client-pick")]
		if k > 0 && t.Chance(1, 3, "client-neighbour") {
			// The other candidate of the same country and system, if any.
			prev := clients[len(clients)-1]
			for _, o := range db.candidates {
				if o != prev && db.direct(o, true) == db.direct(prev, true) && o.Is4() == prev.Is4() {
					c = o
				}
			}
		}
		if !seen[c] {
			seen[c] = true
			clients = append(clients, c)
		}
	}
	if len(db.nearPairs) > 0 && t.Chance(1, 3, "near-neighbours") {
		// Two clients of different countries whose addresses are close.
		for _, c := range db.nearPairs[t.Choose(len(db.nearPairs), "near-pair")] {
			if !seen[c] {
				seen[c] = true
				clients = append(clients, c)
			}
		}
		s.Probe("clients-of-two-countries-close-together")
		s.Logf("geofile: %d pairs of close addresses in different countries: %v", len(db.nearPairs), db.nearPairs)
	}
	s.Logf("geofile: city=%v top=%d country-top=%v cache=%d clients=%v", city, top.Len(), ctryTop, count, clients)

	regionOK := func(sub netip.Prefix, of netip.Addr) (ok bool, why string) {
		if sub.Bits() == 0 {
			return true, "zero prefix"
		}
		sr, cr := db.direct(sub.Addr(), city), db.direct(of, city)
		switch {
		case sr.asn != 0 && sr.asn == cr.asn:
			return true, "same autonomous system"
		case sr.country != "" && sr.country == cr.country:
			return true, "same country"
		case cr.country != "" && sr.asn != 0 && geoip.ASN(sr.asn) == ctryTop[geoip.Country(cr.country)]:
			return true, "top autonomous system of the country"
		}

		return false, fmt.Sprintf("subnet %s is %+v, address %s is %+v", sub, sr, of, cr)
	}

	// forwarded maps the tag of a subnet to the subnet, for every subnet the
	// upstream has seen.
	forwarded := map[[3]byte]netip.Prefix{}

	n := t.Range(4, 40, "requests")
	for i := 0; i < n; i++ {
		if t.Chance(1, 8, "replace-country-db") {
			city = !city
			writeCtry()
			if rerr := gf.Refresh(context.Background()); rerr != nil {
				s.Failf("C05/geo-refresh", "refresh of the GeoIP database failed", "%v", rerr)

				return
			}
			s.Probe("geoip-database-replaced")
			s.Logf("country database replaced, city=%v", city)
		}

		if gap := kernel.Pick(t, []time.Duration{0, 0, time.Second, 4 * time.Second, 400 * time.Second}, "gap"); gap > 0 {
			time.Sleep(gap)
		}

		client := kernel.Pick(t, clients, "client")
		qname := kernel.Pick(t, geoNames, "name")
		sh := shapes[qname]
		qtype := kernel.Pick(t, []uint16{dns.TypeA, dns.TypeA, dns.TypeAAAA}, "qtype")
		req := (&dns.Msg{}).SetQuestion(qname, qtype)
		req.Id = uint16(1000 + i)

		// The client's ECS option: absent, declined, or a prefix around the
		// address of some other client (never of the lengths File uses).
		var supplied *netip.Prefix
		switch t.Choose(5, "ecs") {
		case 4:
			// An IPv4 network written in the IPv6 family (::ffff:a.b.c.d).
			var v4s []netip.Addr
			for _, c := range clients {
				if c.Is4() {
					v4s = append(v4s, c)
				}
			}
			if len(v4s) > 0 {
				a := kernel.Pick(t, v4s, "mapped-ecs-of")
				p := netip.PrefixFrom(netip.AddrFrom16(a.As16()), kernel.Pick(t, []int{116, 119, 128}, "mapped-bits")).Masked()
				supplied = &p
				s.Probe("ecs-ipv4-mapped")
			}
		case 1:
			z := netutil.ZeroPrefix(netutil.AddrFamilyIPv4)
			if t.Chance(1, 2, "ecs-zero-v6") {
				z = netutil.ZeroPrefix(netutil.AddrFamilyIPv6)
			}
			supplied = &z
		case 2, 3:
			a := kernel.Pick(t, clients, "ecs-of")
			bits := kernel.Pick(t, []int{20, 23, 32}, "ecs-bits")
			if a.Is6() {
				bits = kernel.Pick(t, []int{40, 55, 128}, "ecs-bits6")
			}
			p := netip.PrefixFrom(a, bits).Masked()
			supplied = &p
		}
		if supplied != nil {
			req.SetEdns0(1232, false)
			fam := uint16(1)
			addr := net.IP(supplied.Addr().AsSlice())
			if supplied.Addr().Is6() {
				fam = 2
			}
			opt := req.IsEdns0()
			opt.Option = append(opt.Option, &dns.EDNS0_SUBNET{
				Code: dns.EDNS0SUBNET, Family: fam, SourceNetmask: uint8(supplied.Bits()), Address: addr,
			})
		}

		before := len(up.calls)
		out, serr := w.Serve(context.Background(), &world.Request{
			Remote: netip.AddrPortFrom(client, 3333), Msg: req.Copy(), Scribble: true,
		})
		if serr != nil || out == nil || len(out.Msgs) != 1 {
			s.Failf("C05/no-answer", "request not answered", "req %d: %v", i, serr)

			return
		}
		resp := out.Msgs[0]
		hit := len(up.calls) == before
		s.Logf("req %d %s %s/%d ecs=%v -> hit=%v %s", i, client, qname, qtype, supplied, hit, describe(resp))

		declined := supplied != nil && supplied.Bits() == 0
		// The addresses whose region may decide: the ECS option's and the
		// client's own.
		regionOf := []netip.Addr{client}
		if supplied != nil && !declined {
			regionOf = append(regionOf, supplied.Addr())
		}
		inRegion := func(sub netip.Prefix) (ok bool, why string) {
			for _, a := range regionOf {
				if ok, why = regionOK(sub, a); ok {
					return true, why
				}
			}

			return false, why
		}

		if !hit {
			c := up.calls[len(up.calls)-1]
			if !c.hasECS {
				s.Failf("C05/upstream-no-ecs", "upstream query carries no ECS option", "req %d", i)

				return
			}
			a, b, cc := tagFor("subnet:" + c.subnet.String())
			forwarded[[3]byte{a, b, cc}] = c.subnet

			famAddr := client
			if supplied != nil {
				famAddr = supplied.Addr()
			}
			switch {
			case declined && c.subnet.Bits() != 0:
				s.Failf("C05/upstream-subnet", "client opted out with /0 but upstream got a subnet (file database)",
					"req %d client %s: upstream got %s", i, client, c.subnet)

				return
			case c.subnet.Addr().Is4() != famAddr.Is4():
				s.Failf("C05/upstream-family", "upstream ECS has another address family than the client's (file database)",
					"req %d client %s ecs %v: upstream got %s", i, client, supplied, c.subnet)

				return
			case c.subnet.Bits() == 0:
			case supplied != nil && c.subnet == *supplied:
				s.Failf("C05/upstream-subnet", "upstream ECS is the subnet the client supplied (file database)",
					"req %d client %s ecs %v: upstream got %s", i, client, supplied, c.subnet)

				return
			case c.subnet.Bits() == c.subnet.Addr().BitLen():
				s.Failf("C05/upstream-subnet", "upstream ECS is a host address (file database)",
					"req %d client %s ecs %v: upstream got %s", i, client, supplied, c.subnet)

				return
			default:
				ok, why := inRegion(c.subnet)
				if !ok {
					s.Failf("C05/upstream-region", "upstream ECS is a subnet of another region than the client's (file database)",
						"req %d client %s ecs %v: upstream got %s; %s", i, client, supplied, c.subnet, why)

					return
				}
				s.Probe("file-subnet-" + map[string]string{
					"same autonomous system": "by-asn", "same country": "by-country",
					"top autonomous system of the country": "by-country-top-asn",
				}[why])
			}
		}

		if sh.ecs && resp.Rcode != dns.RcodeFormatError {
			for _, rr := range append(append([]dns.RR{}, resp.Answer...), resp.Ns...) {
				var got [3]byte
				switch rr := rr.(type) {
				case *dns.SOA:
					if rr.Serial>>24 != 1 {
						continue
					}
					got = [3]byte{byte(rr.Serial >> 16), byte(rr.Serial >> 8), byte(rr.Serial)}
				case *dns.A:
					ip := rr.A.To4()
					got = [3]byte{ip[1], ip[2], ip[3]}
				case *dns.AAAA:
					got = [3]byte{rr.AAAA[5], rr.AAAA[6], rr.AAAA[7]}
				default:
					continue
				}
				sub, known := forwarded[got]
				if !known {
					s.Failf("C05/unknown-origin", "answer computed for a subnet the upstream never saw (file database)",
						"req %d (hit=%v): %s", i, hit, rr)

					return
				}
				if sub.Bits() == 0 {
					continue
				}
				if declined {
					s.Failf("C05/wrong-region", "opted-out client served an answer cached for a subnet (file database)",
						"req %d (hit=%v): %s was computed for %s", i, hit, rr, sub)

					return
				}
				if ok, why := inRegion(sub); !ok {
					s.Failf("C05/wrong-region", "client served an answer computed for a subnet of another region (file database)",
						"req %d (hit=%v) client %s ecs %v: %s was computed for %s; %s", i, hit, client, supplied, rr, sub, why)

					return
				}
				if hit {
					s.Probe("ecs-dependent-hit-right-region")
					s.MarkNontrivial()
				}
			}
		}

		// The ECS option of the response: exactly when the query carried a
		// valid one, echoing the client's prefix, scope = source length.
		var respECS *dns.EDNS0_SUBNET
		if opt := resp.IsEdns0(); opt != nil {
			for _, o := range opt.Option {
				if e, ok := o.(*dns.EDNS0_SUBNET); ok {
					respECS = e
				}
			}
		}
		switch {
		case supplied == nil && respECS != nil:
			s.Failf("C05/ecs-unsolicited", "response carries an ECS option although the query carried none",
				"req %d (hit=%v): %s", i, hit, respECS)

			return
		case supplied != nil && respECS == nil:
			s.Failf("C05/ecs-missing", "response lacks the ECS option although the query carried a valid one",
				"req %d (hit=%v) ecs=%s", i, hit, supplied)

			return
		case supplied != nil:
			ip, _ := netip.AddrFromSlice(respECS.Address)
			if respECS.Family == 1 {
				ip = ip.Unmap()
			}
			if p := netip.PrefixFrom(ip, int(respECS.SourceNetmask)); p != *supplied || respECS.SourceScope != respECS.SourceNetmask {
				s.Failf("C05/ecs-echo", "response ECS does not echo the client's prefix with scope equal to its source length",
					"req %d (hit=%v): sent %s, got %s scope %d", i, hit, supplied, p, respECS.SourceScope)

				return
			}
		}
	}
	s.MarkNontrivial()
}
