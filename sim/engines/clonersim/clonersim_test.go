// Package clonersim simulates histories of clone, release and in-place
// mutation over DNS messages with the production message cloner (property
// C07, object-recycling part): after every step each live message must still
// be what it was when it was made, whatever was released or overwritten since.
package clonersim

import (
	"fmt"
	"net"
	"runtime/debug"
	"strings"
	"testing"

	"github.com/AdguardTeam/AdGuardDNS/internal/dnsmsg"
	"github.com/AdguardTeam/AdGuardDNS/verif/kernel"
	"github.com/miekg/dns"
)

type live struct {
	name string
	msg  *dns.Msg
	snap string
	// owned: the message may be handed to Dispose (a clone, or a message
	// unpacked from the wire, as the servers and the main middleware do).
	owned bool
}

func snapshot(m *dns.Msg) string {
	b, err := m.Pack()
	if err != nil {
		return "unpackable: " + err.Error() + " " + m.String()
	}

	return fmt.Sprintf("%x\n%s", b, m.String())
}

func ip4(t *kernel.Tape) net.IP {
	return net.IPv4(byte(1+t.Choose(200, "ip")), byte(t.Choose(250, "ip")), byte(t.Choose(250, "ip")), byte(1+t.Choose(250, "ip"))).To4()
}

func ip6(t *kernel.Tape) net.IP {
	ip := make(net.IP, 16)
	ip[0], ip[1] = 0x20, 0x01
	for i := 2; i < 16; i++ {
		ip[i] = byte(t.Choose(256, "ip6"))
	}

	return ip
}

func genRR(t *kernel.Tape, name string, i int) dns.RR {
	hdr := func(rt uint16) dns.RR_Header {
		return dns.RR_Header{Name: name, Rrtype: rt, Class: dns.ClassINET, Ttl: uint32(10 + t.Choose(1000, "ttl"))}
	}
	switch t.Choose(10, "rr-kind") {
	case 0:
		return &dns.A{Hdr: hdr(dns.TypeA), A: ip4(t)}
	case 1:
		return &dns.AAAA{Hdr: hdr(dns.TypeAAAA), AAAA: ip6(t)}
	case 2:
		return &dns.CNAME{Hdr: hdr(dns.TypeCNAME), Target: fmt.Sprintf("c%d.%s", t.Choose(100, "n"), name)}
	case 3:
		return &dns.MX{Hdr: hdr(dns.TypeMX), Preference: uint16(t.Choose(100, "n")), Mx: fmt.Sprintf("mx%d.test.", t.Choose(100, "n"))}
	case 4:
		return &dns.PTR{Hdr: hdr(dns.TypePTR), Ptr: fmt.Sprintf("p%d.test.", t.Choose(100, "n"))}
	case 5:
		return &dns.SRV{Hdr: hdr(dns.TypeSRV), Priority: 1, Weight: 2, Port: uint16(t.Choose(60000, "n")), Target: fmt.Sprintf("s%d.test.", t.Choose(100, "n"))}
	case 6:
		var txts []string
		for k := 1 + t.Choose(3, "txts"); k > 0; k-- {
			txts = append(txts, fmt.Sprintf("txt-%d-%d", i, t.Choose(1000, "n")))
		}

		return &dns.TXT{Hdr: hdr(dns.TypeTXT), Txt: txts}
	case 7:
		return &dns.NS{Hdr: hdr(dns.TypeNS), Ns: fmt.Sprintf("ns%d.test.", t.Choose(100, "n"))}
	default:
		h := &dns.HTTPS{SVCB: dns.SVCB{Hdr: hdr(dns.TypeHTTPS), Priority: uint16(1 + t.Choose(3, "prio")), Target: "."}}
		if t.Chance(1, 2, "alpn") {
			h.Value = append(h.Value, &dns.SVCBAlpn{Alpn: []string{"h2", "h3"}[:1+t.Choose(2, "alpn-n")]})
		}
		if t.Chance(1, 4, "nda") {
			h.Value = append(h.Value, &dns.SVCBNoDefaultAlpn{})
		}
		if t.Chance(1, 3, "port") {
			h.Value = append(h.Value, &dns.SVCBPort{Port: uint16(1 + t.Choose(60000, "port"))})
		}
		if t.Chance(2, 3, "v4hint") {
			var hint []net.IP
			for k := 1 + t.Choose(8, "hints"); k > 0; k-- {
				hint = append(hint, ip4(t))
			}
			h.Value = append(h.Value, &dns.SVCBIPv4Hint{Hint: hint})
		}
		if t.Chance(1, 3, "ech") {
			h.Value = append(h.Value, &dns.SVCBECHConfig{ECH: []byte{1, 2, 3, byte(t.Choose(256, "ech"))}})
		}
		if t.Chance(1, 2, "v6hint") {
			var hint []net.IP
			for k := 1 + t.Choose(4, "hints"); k > 0; k-- {
				hint = append(hint, ip6(t))
			}
			h.Value = append(h.Value, &dns.SVCBIPv6Hint{Hint: hint})
		}
		if t.Chance(1, 4, "dohpath") {
			h.Value = append(h.Value, &dns.SVCBDoHPath{Template: "/dns-query{?dns}"})
		}

		return h
	}
}

func genMsg(t *kernel.Tape, i int) (m *dns.Msg) {
	name := fmt.Sprintf("m%d.example.", i)
	m = &dns.Msg{}
	m.SetQuestion(name, dns.TypeA)
	m.Id = uint16(1000 + i)
	m.Response = true
	m.RecursionAvailable = true
	for k := t.Choose(5, "answers"); k > 0; k-- {
		m.Answer = append(m.Answer, genRR(t, name, i))
	}
	if t.Chance(1, 3, "soa") {
		m.Ns = append(m.Ns, &dns.SOA{
			Hdr: dns.RR_Header{Name: "example.", Rrtype: dns.TypeSOA, Class: dns.ClassINET, Ttl: 60},
			Ns:  "ns.example.", Mbox: "h.example.", Serial: uint32(i), Refresh: 1, Retry: 2, Expire: 3, Minttl: 4,
		})
	}
	if t.Chance(1, 2, "opt") {
		m.SetEdns0(1232, t.Chance(1, 2, "do"))
		opt := m.IsEdns0()
		if t.Chance(1, 2, "cookie") {
			opt.Option = append(opt.Option, &dns.EDNS0_COOKIE{Code: dns.EDNS0COOKIE, Cookie: fmt.Sprintf("%016x", 0x1111*uint64(i+1))})
		}
		if t.Chance(1, 2, "ede") {
			opt.Option = append(opt.Option, &dns.EDNS0_EDE{InfoCode: uint16(t.Choose(20, "ede")), ExtraText: fmt.Sprintf("ede-%d", i)})
		}
		if t.Chance(1, 2, "subnet") {
			opt.Option = append(opt.Option, &dns.EDNS0_SUBNET{Code: dns.EDNS0SUBNET, Family: 1, SourceNetmask: 24, Address: net.IPv4(10, byte(i), 0, 0).To4()})
		}
		if t.Chance(1, 4, "nsid") {
			opt.Option = append(opt.Option, &dns.EDNS0_NSID{Code: dns.EDNS0NSID, Nsid: "abcd"})
		}
	}

	return m
}

// mutate overwrites, in place, memory that belongs to m: addresses, strings,
// header fields.  Nothing else may change because of it.
func mutate(t *kernel.Tape, m *dns.Msg) {
	m.Id ^= 0x0f0f
	for _, rr := range m.Answer {
		rr.Header().Ttl = 7
		switch rr := rr.(type) {
		case *dns.A:
			for i := range rr.A {
				rr.A[i] = 0xEE
			}
		case *dns.AAAA:
			for i := range rr.AAAA {
				rr.AAAA[i] = 0xEE
			}
		case *dns.TXT:
			for i := range rr.Txt {
				rr.Txt[i] = "overwritten"
			}
		case *dns.HTTPS:
			for _, kv := range rr.Value {
				switch kv := kv.(type) {
				case *dns.SVCBIPv4Hint:
					for _, ip := range kv.Hint {
						for i := range ip {
							ip[i] = 0xEE
						}
					}
				case *dns.SVCBIPv6Hint:
					for _, ip := range kv.Hint {
						for i := range ip {
							ip[i] = 0xEE
						}
					}
				case *dns.SVCBAlpn:
					for i := range kv.Alpn {
						kv.Alpn[i] = "zz"
					}
				case *dns.SVCBECHConfig:
					for i := range kv.ECH {
						kv.ECH[i] = 0xEE
					}
				case *dns.SVCBPort:
					kv.Port = 1
				}
			}
		}
	}
	if opt := m.IsEdns0(); opt != nil {
		for _, o := range opt.Option {
			switch o := o.(type) {
			case *dns.EDNS0_SUBNET:
				for i := range o.Address {
					o.Address[i] = 0xEE
				}
			case *dns.EDNS0_EDE:
				o.ExtraText = "overwritten"
			case *dns.EDNS0_COOKIE:
				o.Cookie = "eeeeeeeeeeeeeeee"
			}
		}
	}
	_ = t
}

func run(s *kernel.Sim, _, cfg string) {
	t := s.T
	old := debug.SetGCPercent(-1)
	defer debug.SetGCPercent(old)

	c := dnsmsg.NewCloner(dnsmsg.EmptyClonerStat{})
	var lives []*live
	seq := 0

	check := func(op string) bool {
		for _, l := range lives {
			if got := snapshot(l.msg); got != l.snap {
				s.Failf("C07/clone-corrupted", "a live message changed although only other messages were cloned, released or overwritten",
					"after %s: message %s changed:\n was %s\n now %s", op, l.name, firstLines(l.snap), firstLines(got))

				return false
			}
		}

		return true
	}

	n := t.Range(4, 40, "ops")
	for i := 0; i < n; i++ {
		op := t.Choose(5, "op")
		if len(lives) == 0 {
			op = 0
		}
		switch op {
		case 0:
			seq++
			m := genMsg(t, seq)
			l := &live{name: fmt.Sprintf("orig%d", seq), msg: m}
			if cfg != "nowire" && t.Chance(1, 2, "from-wire") {
				// As received from an upstream: unpacked from the wire.
				b, err := m.Pack()
				if err != nil {
					panic(err)
				}
				w := &dns.Msg{}
				if err = w.Unpack(b); err != nil {
					panic(err)
				}
				l.msg, l.name, l.owned = w, fmt.Sprintf("wire%d", seq), true
				s.Probe("message-from-wire")
			}
			l.snap = snapshot(l.msg)
			lives = append(lives, l)
			s.Logf("op %d: new %s", i, l.name)
		case 1, 2:
			src := lives[t.Choose(len(lives), "clone-which")]
			cl := c.Clone(src.msg)
			seq++
			l := &live{name: fmt.Sprintf("clone%d-of-%s", seq, src.name), msg: cl, owned: true}
			l.snap = snapshot(cl)
			if l.snap != src.snap {
				s.Failf("C07/clone-differs", "a clone is not equal to its original", "clone of %s:\n orig  %s\n clone %s",
					src.name, firstLines(src.snap), firstLines(l.snap))

				return
			}
			lives = append(lives, l)
			s.Logf("op %d: clone %s", i, l.name)
		case 3:
			k := t.Choose(len(lives), "dispose-which")
			l := lives[k]
			if !l.owned {
				continue
			}
			c.Dispose(l.msg)
			lives = append(lives[:k], lives[k+1:]...)
			s.Fault("message-released")
			s.Logf("op %d: dispose %s", i, l.name)
		default:
			l := lives[t.Choose(len(lives), "mutate-which")]
			mutate(t, l.msg)
			l.snap = snapshot(l.msg)
			s.Logf("op %d: overwrite %s", i, l.name)
		}

		if !check(fmt.Sprintf("op %d", i)) {
			return
		}
	}
	s.MarkNontrivial()
}

func firstLines(sn string) string {
	parts := strings.SplitN(sn, "\n", 2)
	if len(parts) == 2 {
		return strings.Join(strings.Fields(parts[1]), " ")
	}

	return sn
}

func TestWorker(t *testing.T) {
	kernel.WorkerMain(t, &kernel.Engine{Name: "clonersim", Run: run})
}
