package fltsim

import (
	"context"
	"crypto/sha256"
	"encoding/hex"
	"fmt"
	"net/http"
	"net/netip"
	"os"
	"path/filepath"
	"sort"
	"strings"
	"time"

	"github.com/AdguardTeam/AdGuardDNS/internal/agd"
	"github.com/AdguardTeam/AdGuardDNS/internal/agdtest"
	"github.com/AdguardTeam/AdGuardDNS/internal/dnsmsg"
	"github.com/AdguardTeam/AdGuardDNS/internal/dnsserver"
	"github.com/AdguardTeam/AdGuardDNS/internal/filter"
	"github.com/AdguardTeam/AdGuardDNS/internal/filter/hashprefix"
	"github.com/AdguardTeam/AdGuardDNS/verif/kernel"
	"github.com/AdguardTeam/AdGuardDNS/verif/simhttp"
	"github.com/AdguardTeam/AdGuardDNS/verif/world"
	"github.com/miekg/dns"
	"golang.org/x/net/publicsuffix"
)

// C11: safe-browsing lookups are sound and complete.  Three real hash-prefix
// filters get their lists from the simulated origin (with failing refreshes
// that must keep the previous list); host queries go through the real
// handler stack (pre-service and main middleware), TXT hash-prefix queries
// through the real matcher.  The oracle is an independent set model built
// with crypto/sha256 and x/net/publicsuffix.

const (
	suffixSB = ".sb.dns.sim"
	suffixPC = ".pc.dns.sim"
)

var nameUniverse = []string{
	"a.test", "b.a.test", "c.b.a.test", "d.c.b.a.test", "e.d.c.b.a.test", "f.e.d.c.b.a.test",
	"z.test", "test", "a.co.uk", "b.a.co.uk", "c.b.a.co.uk", "d.c.b.a.co.uk", "co.uk", "uk",
	"blogspot.com", "x.blogspot.com", "y.x.blogspot.com", "com", "example.com", "www.example.com",
	"deep.www.example.com", "very.deep.www.example.com", "A.Test", "single",
	// Names whose SHA-256 sums begin with the same two octets (they share a
	// bucket of the hash-prefix index): a triple and a pair.
	"h162.test", "h298.test", "h363.test", "h74.test", "h2632.test",
}

// listModel is the independent model of one list.
type listModel map[string]bool

func parseList(text string) (m listModel) {
	m = listModel{}
	for _, line := range strings.Split(text, "\n") {
		line = strings.TrimSuffix(line, "\r")
		if line == "" || line[0] == '#' {
			continue
		}
		m[line] = true
	}

	return m
}

// candidates are the host itself and its parent domains of up to four labels,
// excluding the (ICANN) public suffix and anything above it.
func candidates(host string) (cs []string) {
	ps, icann := publicsuffix.PublicSuffix(host)
	psLabels := 0
	if icann {
		psLabels = len(strings.Split(ps, "."))
	}
	labels := strings.Split(host, ".")
	for k := 1; k <= 4 && k <= len(labels); k++ {
		if k <= psLabels {
			continue
		}
		cs = append(cs, strings.Join(labels[len(labels)-k:], "."))
	}

	return cs
}

func (m listModel) matches(host string) (matched string) {
	for _, c := range candidates(host) {
		if m[c] {
			return c
		}
	}

	return ""
}

func (m listModel) hashes(prefixes []string) (hs []string) {
	want := map[string]bool{}
	for _, p := range prefixes {
		want[strings.ToLower(p[:4])] = true
	}
	seen := map[string]bool{}
	for name := range m {
		sum := sha256.Sum256([]byte(name))
		h := hex.EncodeToString(sum[:])
		if want[h[:4]] && !seen[h] {
			seen[h] = true
			hs = append(hs, h)
		}
	}
	sort.Strings(hs)

	return hs
}

func genListText(t *kernel.Tape) string {
	var b strings.Builder
	crlf := t.Chance(1, 4, "crlf")
	nl := "\n"
	if crlf {
		nl = "\r\n"
	}
	b.WriteString("# a comment" + nl)
	for _, n := range nameUniverse {
		if t.Chance(1, 3, "listed") {
			b.WriteString(n + nl)
			if t.Chance(1, 6, "duplicate") {
				b.WriteString(n + nl)
			}
		}
		if t.Chance(1, 10, "blank") {
			b.WriteString(nl)
		}
		if t.Chance(1, 12, "comment") {
			b.WriteString("#" + n + nl)
		}
	}

	return b.String()
}

// sameLength are names of the universe that have the same length.
var sameLength = []string{"a.test", "z.test", "single"}

// swapOne returns text with one listed name of sameLength replaced by an
// unlisted one, or with one of them appended in place of a comment line of the
// same length when none is listed.
func swapOne(t *kernel.Tape, text string) (swapped string) {
	lines := strings.Split(text, "\n")
	listed := map[string]int{}
	for i, ln := range lines {
		listed[strings.TrimSuffix(ln, "\r")] = i + 1
	}
	var in, out []string
	for _, n := range sameLength {
		if listed[n] > 0 {
			in = append(in, n)
		} else {
			out = append(out, n)
		}
	}
	if len(in) == 0 || len(out) == 0 {
		return text
	}
	from, to := kernel.Pick(t, in, "swap-from"), kernel.Pick(t, out, "swap-to")
	for i, ln := range lines {
		if strings.TrimSuffix(ln, "\r") == from {
			lines[i] = to + strings.TrimPrefix(ln, from)
		}
	}

	return strings.Join(lines, "\n")
}

type c11Up struct {
	names []string
}

func (u *c11Up) ServeDNS(ctx context.Context, rw dnsserver.ResponseWriter, req *dns.Msg) error {
	u.names = append(u.names, strings.ToLower(req.Question[0].Name))
	resp := (&dns.Msg{}).SetReply(req)
	resp.RecursionAvailable = true
	if req.Question[0].Qtype == dns.TypeA {
		resp.Answer = append(resp.Answer, &dns.A{
			Hdr: dns.RR_Header{Name: req.Question[0].Name, Rrtype: dns.TypeA, Class: dns.ClassINET, Ttl: 60},
			A:   []byte{192, 0, 2, 1},
		})
	}

	return rw.WriteMsg(ctx, req, resp)
}

func runC11(s *kernel.Sim, cfg string) {
	if cfg == "conc" {
		runC11Concurrent(s)

		return
	}
	// Sequential history: the yields of the instrumented storage are not
	// scheduling points here.
	s.Uninstall()
	t := s.T
	dir, err := os.MkdirTemp(os.TempDir(), "fltsim")
	if err != nil {
		panic(err)
	}
	defer func() { _ = os.RemoveAll(dir) }()
	cacheDir := filepath.Join(dir, "cache")
	_ = os.Mkdir(cacheDir, 0o700)

	l := &lab{s: s, origin: simhttp.NewOrigin(), dir: cacheDir, ever: map[string]map[string]int{}, nLists: 1}
	prev := http.DefaultTransport
	http.DefaultTransport = l.origin
	defer func() { http.DefaultTransport = prev }()

	failNext := map[string]bool{}
	l.origin.Decide = func(path string) (simhttp.Fault, int) {
		if failNext[path] {
			s.Fault("http-500")

			return simhttp.ServerError, 0
		}

		return simhttp.OK, 0
	}

	// The rule-list side of the storage is irrelevant here but must load.
	l.origin.Set("/index.json", `{"filters":[]}`)
	l.origin.Set("/services.json", `{"blocked_services":[]}`)

	l.st, l.hashes, l.hp = l.newStorage(cacheDir)
	matcher := hashprefix.NewMatcher(map[string]*hashprefix.Storage{
		suffixSB: l.hashes[filter.IDSafeBrowsing],
		suffixPC: l.hashes[filter.IDAdultBlocking],
	})

	up := &c11Up{}
	var statID filter.ID
	var statRule filter.RuleText
	w, err := world.New(&world.Config{
		Upstream:      up,
		FilterStorage: l.st,
		HashMatcher:   matcher,
		RuleStat: &agdtest.RuleStat{OnCollect: func(_ context.Context, id filter.ID, r filter.RuleText) {
			statID, statRule = id, r
		}},
		FilterConfig: &filter.ConfigGroup{
			Parental:     &filter.ConfigParental{Enabled: true, AdultBlockingEnabled: true},
			RuleList:     &filter.ConfigRuleList{},
			SafeBrowsing: &filter.ConfigSafeBrowsing{Enabled: true, DangerousDomainsEnabled: true, NewlyRegisteredDomainsEnabled: true},
		},
	})
	if err != nil {
		panic(err)
	}

	models := map[filter.ID]listModel{}
	for _, id := range hashIDs {
		models[id] = listModel{}
	}

	prevText := map[filter.ID]string{}
	// A host that is asked again and again, so that its cached verdict meets
	// the list changes.
	focus := kernel.Pick(t, sameLength, "focus-host")

	ctx := context.Background()
	rounds := t.Range(1, 4, "rounds")
	for r := 1; r <= rounds && s.Failed() == nil; r++ {
		// ---- reset the lists (some refreshes fail and keep the old list) ----
		time.Sleep(2 * staleness)
		rctx, cancel := context.WithTimeout(ctx, time.Minute)
		if r == 1 {
			_ = l.st.RefreshInitial(rctx)
		}
		for _, id := range hashIDs {
			text := genListText(t)
			switch prev := prevText[id]; {
			case prev == "":
			case t.Chance(1, 4, "list-swap-one"):
				// The previous list with one name exchanged for another of
				// the same length: as many entries, as many octets.
				text = swapOne(t, prev)
				s.Probe("list-same-size-other-content")
			case t.Chance(1, 8, "list-emptied"):
				// Comments and blank lines only.
				text = "# nothing listed any more\n\n# " + strings.Repeat("x", t.Choose(40, "pad")) + "\n"
				s.Probe("list-without-hosts")
			}
			l.origin.Set(hashPath(id), text)
			failNext[hashPath(id)] = r > 1 && t.Chance(1, 4, "refresh-fails")
			unparseable := r > 1 && !failNext[hashPath(id)] && t.Chance(1, 6, "list-cannot-be-read")
			if unparseable {
				// The download succeeds, but after some of its lines the list
				// has one that no reader takes (longer than 64 KiB): the list
				// is rejected, as a whole.
				lines := strings.SplitAfter(text, "\n")
				k := t.Choose(len(lines)+1, "long-line-after")
				l.origin.Set(hashPath(id), strings.Join(lines[:k], "")+strings.Repeat("z", 70000)+"\n"+strings.Join(lines[k:], ""))
				s.Fault("list-with-a-line-too-long")
			}
			var rerr error
			if r == 1 {
				rerr = l.hp[id].RefreshInitial(rctx)
			} else {
				rerr = l.hp[id].Refresh(rctx)
			}
			if unparseable {
				if rerr == nil {
					s.Failf("C11/refresh", "a list that cannot be read was accepted", "%s", id)

					return
				}
				s.Probe("failed-reset-keeps-list")
			} else if !failNext[hashPath(id)] {
				if rerr != nil {
					s.Failf("C11/refresh", "list reset failed without a fault", "%s: %v", id, rerr)

					return
				}
				models[id] = parseList(text)
				prevText[id] = text
			} else {
				s.Probe("failed-reset-keeps-list")
			}
		}
		cancel()

		// ---- queries ----
		nq := t.Range(3, 25, "queries")
		for i := 0; i < nq && s.Failed() == nil; i++ {
			if t.Chance(1, 3, "txt-query") {
				c11TXT(s, w, up, models, r, i)

				continue
			}

			host := kernel.Pick(t, nameUniverse, "host")
			if t.Chance(1, 3, "ask-focus-host") {
				host = focus
			}
			switch t.Choose(4, "host-variant") {
			case 1:
				host = "sub." + host
			case 2:
				host = strings.ToLower(host)
			}
			qt := kernel.Pick(t, []uint16{
				dns.TypeA, dns.TypeAAAA, dns.TypeHTTPS, dns.TypeA, dns.TypeAAAA, dns.TypeHTTPS,
				dns.TypeMX, dns.TypeCNAME, dns.TypeSVCB, dns.TypeNS, dns.TypeSRV, dns.TypePTR, dns.TypeANY, dns.TypeSOA,
			}, "qtype")
			up.names = nil
			statID, statRule = "", ""
			req := (&dns.Msg{}).SetQuestion(dns.Fqdn(host), qt)
			out, serr := w.Serve(ctx, &world.Request{Remote: netip.MustParseAddrPort("203.0.113.9:5353"), Msg: req})
			if serr != nil || out == nil || len(out.Msgs) != 1 {
				s.Failf("C11/no-answer", "host query not answered", "%s/%d: %v", host, qt, serr)

				return
			}

			lhost := strings.ToLower(host)
			filterable := qt == dns.TypeA || qt == dns.TypeAAAA || qt == dns.TypeHTTPS
			wantLists := map[filter.ID]string{}
			if filterable {
				for _, id := range hashIDs {
					if m := models[id].matches(lhost); m != "" {
						wantLists[id] = m
					}
				}
			}

			rewritten := len(up.names) == 1 && up.names[0] == "block.sim.test."
			s.Logf("round %d query %d: %s/%d -> upstream %v stat=%s/%q model=%v", r, i, host, qt, up.names, statID, statRule, wantLists)
			if len(wantLists) == 0 {
				if rewritten || (statID == filter.IDSafeBrowsing || statID == filter.IDAdultBlocking || statID == filter.IDNewRegDomains) {
					kind := "host treated as listed although neither it nor a parent domain is in any list"
					if !filterable {
						kind = "safe-browsing verdict for a question type other than A, AAAA, HTTPS"
					}
					s.Failf("C11/unsound", kind, "round %d: %s/%d matched %s by %q; lists: %v", r, host, qt, statID, statRule, listsOf(models))

					return
				}

				continue
			}

			s.MarkNontrivial()
			s.Probe("listed-host-query")
			if !rewritten {
				s.Failf("C11/incomplete", "listed host (or a listed parent domain) was not treated as listed",
					"round %d: %s/%d should match %v, upstream saw %v", r, host, qt, wantLists, up.names)

				return
			}
			if m, ok := wantLists[statID]; !ok {
				s.Failf("C11/wrong-list", "verdict attributed to a list that does not contain the host",
					"round %d: %s/%d attributed to %s (%q), model %v", r, host, qt, statID, statRule, wantLists)

				return
			} else if string(statRule) != m && !models[statID][string(statRule)] {
				s.Failf("C11/wrong-match", "verdict names a matched entry that is not in the list",
					"round %d: %s/%d matched %q, list %s has %v", r, host, qt, statRule, statID, m)

				return
			}
		}
	}
}

func listsOf(models map[filter.ID]listModel) string {
	var parts []string
	for _, id := range hashIDs {
		var ns []string
		for n := range models[id] {
			ns = append(ns, n)
		}
		sort.Strings(ns)
		parts = append(parts, fmt.Sprintf("%s=%v", id, ns))
	}

	return strings.Join(parts, " ")
}

func c11TXT(s *kernel.Sim, w *world.World, up *c11Up, models map[filter.ID]listModel, r, i int) {
	t := s.T
	suffix, id := suffixSB, filter.IDSafeBrowsing
	if t.Chance(1, 2, "txt-pc") {
		suffix, id = suffixPC, filter.IDAdultBlocking
	}
	m := models[id]

	// Prefixes: of listed names, of unlisted names, random; 4 or 8 chars.
	var prefixes []string
	malformed := false
	np := t.Range(1, 4, "prefixes")
	for k := 0; k < np; k++ {
		name := kernel.Pick(t, nameUniverse, "prefix-of")
		sum := sha256.Sum256([]byte(name))
		h := hex.EncodeToString(sum[:])
		switch t.Choose(8, "prefix-shape") {
		case 0, 1, 2:
			prefixes = append(prefixes, h[:4])
		case 3:
			prefixes = append(prefixes, h[:8])
		case 4:
			prefixes = append(prefixes, strings.ToUpper(h[:4]))
		case 5:
			prefixes = append(prefixes, h[:4], h[:4])
		case 6:
			prefixes = append(prefixes, h[:kernel.Pick(t, []int{3, 5, 6, 7, 9}, "bad-len")])
			malformed = true
		default:
			prefixes = append(prefixes, "zz"+h[:2])
			malformed = true
		}
	}

	host := strings.Join(prefixes, ".") + suffix

	// Names that merely contain the suffix, or end with something that looks
	// like it, are ordinary names: they go upstream.
	decoy := ""
	if t.Chance(1, 6, "txt-decoy") {
		switch t.Choose(4, "decoy-shape") {
		case 0:
			decoy = host + ".example.org"
		case 1:
			decoy = "www" + suffix + ".example.org"
		case 2:
			decoy = strings.Join(prefixes, ".") + ".x" + suffix[1:]
		default:
			decoy = strings.Join(prefixes, ".") + suffix + "x"
		}
		host = decoy
	}

	up.names = nil
	req := (&dns.Msg{}).SetQuestion(dns.Fqdn(host), dns.TypeTXT)
	out, serr := w.Serve(context.Background(), &world.Request{Remote: netip.MustParseAddrPort("203.0.113.9:5353"), Msg: req})
	if out == nil || len(out.Msgs) != 1 {
		s.Failf("C11/no-answer", "hash-prefix query not answered", "%s: %v", host, serr)

		return
	}
	resp := out.Msgs[0]
	s.Logf("round %d query %d: TXT %s -> rcode %d, %d answers, upstream %v", r, i, host, resp.Rcode, len(resp.Answer), up.names)

	if decoy != "" {
		s.Probe("txt-name-not-under-suffix")
		if len(up.names) != 1 || resp.Rcode != dns.RcodeSuccess || len(resp.Answer) != 0 {
			s.Failf("C11/ordinary-txt-intercepted", "TXT query for a name that is not under a safe-browsing suffix was not resolved upstream",
				"%s: rcode %d, %d answers, upstream saw %v", host, resp.Rcode, len(resp.Answer), up.names)
		}

		return
	}

	if len(up.names) != 0 {
		s.Failf("C11/txt-forwarded", "hash-prefix query under a safe-browsing suffix was forwarded upstream", "%s", host)

		return
	}

	if malformed {
		s.Probe("malformed-prefix")
		if resp.Rcode != dns.RcodeRefused {
			s.Failf("C11/malformed-not-refused", "malformed hash prefix was not refused", "%s: rcode %d", host, resp.Rcode)
		}

		return
	}

	var got []string
	for _, rr := range resp.Answer {
		if txt, ok := rr.(*dns.TXT); ok {
			got = append(got, txt.Txt...)
		}
	}
	gotSet := map[string]bool{}
	for _, g := range got {
		gotSet[g] = true
	}
	var gotU []string
	for g := range gotSet {
		gotU = append(gotU, g)
	}
	sort.Strings(gotU)
	want := m.hashes(prefixes)
	if len(want) > 0 {
		s.MarkNontrivial()
		s.Probe("hash-prefix-hit")
	}
	if fmt.Sprint(gotU) != fmt.Sprint(want) {
		kind := "hash-prefix answer contains a hash of no listed name"
		if len(gotU) < len(want) {
			kind = "hash-prefix answer misses the hash of a listed name"
		}
		s.Failf("C11/hashes", kind, "round %d: %s (list %s):\n got  %v\n want %v", r, host, id, gotU, want)
	}
}

var _ = agd.ProtoDNS
var _ = dnsmsg.DefaultEDNSUDPSize

// runC11Concurrent: hash-prefix lookups overlapping list resets.  The storage
// swaps its index while lookups run; every answer must be the complete answer
// for one of the list versions that were in force at some instant of the
// lookup — never a mixture.  Yields are inserted before every load and store
// of the storage's index pointer.
func runC11Concurrent(s *kernel.Sim) {
	t := s.T
	nVer := t.Range(2, 4, "versions")
	texts := make([]string, nVer)
	models := make([]listModel, nVer)
	for i := range texts {
		texts[i] = genListText(t)
		models[i] = parseList(texts[i])
	}

	s.Uninstall()
	strg, err := hashprefix.NewStorage(texts[0])
	if err != nil {
		panic(err)
	}
	m := hashprefix.NewMatcher(map[string]*hashprefix.Storage{suffixSB: strg})
	s.Install()

	clock := 0
	tick := func() int { clock++; return clock }
	// start[v] / end[v]: stamps around the reset that installed version v.
	start := []int{0}
	end := []int{0}
	cur := []int{0} // version index installed by the k-th reset

	s.Go("reset", func() {
		n := t.Range(1, 4, "resets")
		for k := 0; k < n; k++ {
			s.Yield("before-reset")
			v := t.Choose(nVer, "which-version")
			start = append(start, tick())
			cur = append(cur, v)
			end = append(end, 0)
			idx := len(end) - 1
			if _, rerr := strg.Reset(texts[v]); rerr != nil {
				s.Failf("C11/reset-error", "reset of a well-formed list failed", "%v", rerr)

				return
			}
			end[idx] = tick()
			s.Logf("reset #%d installs version %d [%d,%d]", idx, v, start[idx], end[idx])
		}
	})

	nLook := t.Range(1, 2, "lookup-tasks")
	for li := 0; li < nLook; li++ {
		name := fmt.Sprintf("lookup%d", li)
		cnt := t.Range(1, 6, "lookups")
		var hosts [][]string
		for j := 0; j < cnt; j++ {
			var prefixes []string
			for k, np := 0, t.Range(1, 4, "prefixes"); k < np; k++ {
				sum := sha256.Sum256([]byte(kernel.Pick(t, nameUniverse, "prefix-of")))
				prefixes = append(prefixes, hex.EncodeToString(sum[:])[:4])
			}
			hosts = append(hosts, prefixes)
		}
		s.Go(name, func() {
			for _, prefixes := range hosts {
				s.Yield("before-lookup")
				inv := tick()
				got, matched, merr := m.MatchByPrefix(context.Background(), strings.Join(prefixes, ".")+suffixSB)
				ret := tick()
				if merr != nil || !matched {
					s.Failf("C11/lookup-error", "well-formed hash-prefix lookup failed", "%v matched=%v", merr, matched)

					return
				}
				gs := map[string]bool{}
				for _, g := range got {
					gs[g] = true
				}
				var gotU []string
				for g := range gs {
					gotU = append(gotU, g)
				}
				sort.Strings(gotU)

				// Versions in force at some instant of [inv, ret].
				var tried []string
				ok := false
				for k := range cur {
					began := start[k]
					over := 0 // stamp at which the next reset had certainly replaced it
					if k+1 < len(cur) {
						over = end[k+1]
					}
					if began > ret || (over != 0 && over < inv) {
						continue
					}
					want := models[cur[k]].hashes(prefixes)
					tried = append(tried, fmt.Sprintf("reset#%d(v%d)=%v", k, cur[k], want))
					if fmt.Sprint(want) == fmt.Sprint(gotU) {
						ok = true
					}
				}
				s.Logf("%s: %v [%d,%d] -> %d hashes, candidates %d, ok=%v", name, prefixes, inv, ret, len(gotU), len(tried), ok)
				if len(tried) > 1 {
					s.Probe("lookup-overlapped-reset")
					s.MarkNontrivial()
				}
				if !ok {
					s.Failf("C11/hashes-across-reset", "hash-prefix answer is the answer of no list version in force during the lookup",
						"prefixes %v: got %v; versions in force: %v", prefixes, gotU, tried)

					return
				}
			}
		})
	}

	s.Run()
	if s.Stuck {
		s.Failf("C11/stuck", "lookup or reset cannot make progress", "deadlock")
	}
}
