// Package fltsim simulates the filtering storage (properties C11, C12, C13):
// the real filterstorage.Default, rule lists, blocked-service filter and
// hash-prefix filters, downloading their data from a simulated HTTP origin
// (faults per download) into a real per-run cache directory; refreshes run as
// a task under the kernel's scheduler, crash images of the cache directory
// are taken at the steps of an update.
package fltsim

import (
	"context"
	"encoding/json"
	"fmt"
	"log/slog"
	"net/http"
	"net/netip"
	"net/url"
	"os"
	"path/filepath"
	"sort"
	"strings"
	"testing"
	"time"

	"github.com/AdguardTeam/AdGuardDNS/internal/agdcache"
	"github.com/AdguardTeam/AdGuardDNS/internal/agdtime"
	"github.com/AdguardTeam/AdGuardDNS/internal/dnsmsg"
	"github.com/AdguardTeam/AdGuardDNS/internal/filter"
	"github.com/AdguardTeam/AdGuardDNS/internal/filter/filterstorage"
	"github.com/AdguardTeam/AdGuardDNS/internal/filter/hashprefix"
	"github.com/AdguardTeam/AdGuardDNS/verif/kernel"
	"github.com/AdguardTeam/AdGuardDNS/verif/simhttp"
	"github.com/AdguardTeam/AdGuardDNS/verif/world"
	"github.com/c2h5oh/datasize"
	"github.com/miekg/dns"
)

const (
	markers   = 3
	originURL = "http://origin.sim"
	maxSize   = 4 * datasize.KB
	// Hash lists may be large enough to carry a line longer than the 64 KiB
	// a line scanner takes.
	hashMaxSize = 128 * datasize.KB
	longLine    = 70_000
	staleness   = time.Hour
)

var hashIDs = []filter.ID{filter.IDAdultBlocking, filter.IDSafeBrowsing, filter.IDNewRegDomains}

func hashPath(id filter.ID) string { return "/hash/" + string(id) }
func hashTag(id filter.ID) string  { return "h" + strings.ReplaceAll(string(id), "_", "") }
func listID(k int) filter.ID       { return filter.ID(fmt.Sprintf("list_%d", k)) }
func listPath(k int) string        { return fmt.Sprintf("/list/%d", k) }

func marker(j, ver int, tag string) string { return fmt.Sprintf("m%d.v%d.%s.test", j, ver, tag) }

// content of version ver of each kind of resource.
func ruleListText(ver int, tag string) string {
	var b strings.Builder
	fmt.Fprintf(&b, "! version %d of %s\n", ver, tag)
	for j := 0; j < markers; j++ {
		fmt.Fprintf(&b, "||%s^\n", marker(j, ver, tag))
	}

	return b.String()
}

func hashListText(ver int, tag string) string {
	var b strings.Builder
	fmt.Fprintf(&b, "# version %d\n", ver)
	for j := 0; j < markers; j++ {
		fmt.Fprintf(&b, "%s\n", marker(j, ver, tag))
	}

	return b.String()
}

func servicesText(ver int, invalidEntry bool) string {
	var rules []string
	for j := 0; j < markers; j++ {
		rules = append(rules, "||"+marker(j, ver, "svc")+"^")
	}
	// The service also covers a host that rule lists have verdicts on.
	rules = append(rules, "||ads.multi-shared.com^")
	// A second service with rules of its own; both know one common host.
	var rulesB []string
	for j := 0; j < markers; j++ {
		rulesB = append(rulesB, "||"+marker(j, ver, "svb")+"^")
	}
	rulesB = append(rulesB, "||both.services.test^")
	rules = append(rules, "||both.services.test^")
	svcs := []map[string]any{
		{"id": "svc_a", "name": "Service A", "rules": rules},
		{"id": "svc_b", "name": "Service B", "rules": rulesB},
	}
	if invalidEntry {
		// An entry the client cannot accept next to a good one: the update
		// of the service list fails as a whole.
		svcs = append(svcs, map[string]any{"id": "bad service id!", "name": "Broken", "rules": []string{"||broken.test^"}})
	}
	b, _ := json.Marshal(map[string]any{"blocked_services": svcs})

	return string(b)
}

func indexText(t *kernel.Tape, nLists int) string {
	var fl []map[string]any
	for k := 0; k < nLists; k++ {
		fl = append(fl, map[string]any{"filterKey": string(listID(k)), "downloadUrl": originURL + listPath(k)})
	}
	// A sprinkling of invalid entries; the valid ones must still be applied.
	for i := t.Choose(3, "invalid-entries"); i > 0; i-- {
		switch t.Choose(9, "invalid-kind") {
		case 8:
			// No record at all where one should be.
			pos := t.Choose(len(fl)+1, "invalid-position")
			fl = append(fl[:pos:pos], append([]map[string]any{nil}, fl[pos:]...)...)
		case 6, 7:
			// A record that lacks one of its fields altogether, anywhere in
			// the index: where a complete record stood in the round before.
			rec := map[string]any{"filterKey": "no_url_list"}
			if t.Chance(1, 2, "lacks-key") {
				rec = map[string]any{"downloadUrl": originURL + "/list/nokey"}
			}
			pos := t.Choose(len(fl)+1, "invalid-position")
			fl = append(fl[:pos:pos], append([]map[string]any{rec}, fl[pos:]...)...)
		case 4:
			// An invalid record in front of the valid record of the same key.
			fl = append([]map[string]any{{"filterKey": string(listID(t.Choose(nLists, "twin-of"))), "downloadUrl": ""}}, fl...)
		case 5:
			fl = append([]map[string]any{{"filterKey": string(listID(t.Choose(nLists, "twin-of"))), "downloadUrl": "ftp://origin.sim/list"}}, fl...)
		case 0:
			fl = append(fl, map[string]any{"filterKey": "empty_url", "downloadUrl": ""})
		case 1:
			fl = append(fl, map[string]any{"filterKey": "bad key!", "downloadUrl": originURL + "/list/x"})
		case 2:
			fl = append(fl, map[string]any{"filterKey": string(listID(0)), "downloadUrl": originURL + "/list/dup"})
		default:
			fl = append(fl, map[string]any{"filterKey": "ftp_list", "downloadUrl": "ftp://origin.sim/list"})
		}
	}
	b, _ := json.Marshal(map[string]any{"filters": fl})

	return string(b)
}

// lab is the world of one run.
type lab struct {
	s      *kernel.Sim
	origin *simhttp.Origin
	dir    string
	nLists int
	msgs   *dnsmsg.Constructor

	st     *filterstorage.Default
	hashes map[filter.ID]*hashprefix.Storage
	hp     map[filter.ID]*hashprefix.Filter

	// ever[res] are the complete contents ever published for a cache file.
	ever map[string]map[string]int

	// current is what the origin serves at the moment, per path.
	current    map[string]string
	currentVer map[string]int

	// faults of the current round, per path.
	roundFaults map[string]simhttp.Fault
	faultsOn    bool
	images      int
}

func (l *lab) publish(path, content string, ver int, cacheFile string) {
	l.origin.Set(path, content)
	if l.current == nil {
		l.current, l.currentVer = map[string]string{}, map[string]int{}
	}
	l.current[path], l.currentVer[path] = content, ver
	if l.ever[cacheFile] == nil {
		l.ever[cacheFile] = map[string]int{}
	}
	l.ever[cacheFile][content] = ver
}

// publishedJunk notes that the origin serves the current content of path
// followed by a line of n octets: a complete body as published, which a cache
// file may hold although the list cannot be parsed from it.
func (l *lab) publishedJunk(path string, n int) {
	content, ver := l.current[path], l.currentVer[path]
	cf := l.cacheFileOf(path)
	if l.ever[cf] == nil {
		l.ever[cf] = map[string]int{}
	}
	l.ever[cf][simhttp.LongLineBody(content, n)] = ver
}

func (l *lab) cacheFileOf(path string) string {
	switch {
	case path == "/index.json":
		return "rule_lists.json"
	case path == "/services.json":
		return "services.json"
	case strings.HasPrefix(path, "/list/"):
		return "list_" + strings.TrimPrefix(path, "/list/")
	default:
		return "hash_" + strings.TrimPrefix(path, "/hash/")
	}
}

// storageOpts are the knobs of a storage under test.
type storageOpts struct {
	cacheMgr    agdcache.Manager
	noResCaches bool
	replacement string
	safeSearch  bool
}

func (l *lab) newStorage(dir string) (st *filterstorage.Default, hs map[filter.ID]*hashprefix.Storage, hp map[filter.ID]*hashprefix.Filter) {
	return l.newStorageOpts(dir, storageOpts{})
}

func (l *lab) newStorageOpts(dir string, o storageOpts) (st *filterstorage.Default, hs map[filter.ID]*hashprefix.Storage, hp map[filter.ID]*hashprefix.Filter) {
	if o.cacheMgr == nil {
		o.cacheMgr = agdcache.EmptyManager{}
	}
	if o.replacement == "" {
		o.replacement = "block.sim.test"
	}
	u := func(p string) *url.URL {
		x, err := url.Parse(originURL + p)
		if err != nil {
			panic(err)
		}

		return x
	}
	logger := slog.New(slog.DiscardHandler)
	hs = map[filter.ID]*hashprefix.Storage{}
	hp = map[filter.ID]*hashprefix.Filter{}
	for _, id := range hashIDs {
		strg, err := hashprefix.NewStorage("")
		if err != nil {
			panic(err)
		}
		f, err := hashprefix.NewFilter(&hashprefix.FilterConfig{
			Logger:          logger,
			Cloner:          dnsmsg.NewCloner(dnsmsg.EmptyClonerStat{}),
			CacheManager:    o.cacheMgr,
			Hashes:          strg,
			URL:             u(hashPath(id)),
			ErrColl:         &world.ErrColl{},
			Metrics:         filter.EmptyMetrics{},
			ID:              id,
			CachePath:       filepath.Join(dir, "hash_"+string(id)),
			ReplacementHost: o.replacement,
			Staleness:       staleness,
			CacheTTL:        time.Hour,
			RefreshTimeout:  10 * time.Second,
			CacheCount:      100,
			MaxSize:         hashMaxSize,
		})
		if err != nil {
			panic(err)
		}
		hs[id], hp[id] = strg, f
	}

	st, err := filterstorage.New(&filterstorage.Config{
		BaseLogger: logger,
		Logger:     logger,
		BlockedServices: &filterstorage.ConfigBlockedServices{
			IndexURL:            u("/services.json"),
			IndexMaxSize:        maxSize,
			IndexRefreshTimeout: 10 * time.Second,
			IndexStaleness:      staleness,
			ResultCacheCount:    100,
			ResultCacheEnabled:  !o.noResCaches,
			Enabled:             true,
		},
		Custom: &filterstorage.ConfigCustom{CacheCount: 100},
		HashPrefix: &filterstorage.ConfigHashPrefix{
			Adult:           hp[filter.IDAdultBlocking],
			Dangerous:       hp[filter.IDSafeBrowsing],
			NewlyRegistered: hp[filter.IDNewRegDomains],
		},
		RuleLists: &filterstorage.ConfigRuleLists{
			IndexURL:            u("/index.json"),
			IndexMaxSize:        maxSize,
			MaxSize:             maxSize,
			IndexRefreshTimeout: 10 * time.Second,
			IndexStaleness:      staleness,
			RefreshTimeout:      10 * time.Second,
			Staleness:           staleness,
			ResultCacheCount:    100,
			ResultCacheEnabled:  !o.noResCaches,
		},
		SafeSearchGeneral: &filterstorage.ConfigSafeSearch{
			URL:              u("/ss-general"),
			ID:               filter.IDGeneralSafeSearch,
			MaxSize:          maxSize,
			ResultCacheTTL:   time.Hour,
			RefreshTimeout:   10 * time.Second,
			Staleness:        staleness,
			ResultCacheCount: 100,
			Enabled:          o.safeSearch,
		},
		SafeSearchYouTube: &filterstorage.ConfigSafeSearch{ID: filter.IDYoutubeSafeSearch},
		CacheManager:      o.cacheMgr,
		Clock:             agdtime.SystemClock{},
		ErrColl:           &world.ErrColl{},
		Metrics:           filter.EmptyMetrics{},
		CacheDir:          dir,
	})
	if err != nil {
		panic(err)
	}

	return st, hs, hp
}

// blockedBy asks the storage whether host is blocked under a configuration
// that enables exactly one rule list or the blocked service.
func (l *lab) blockedBy(st *filterstorage.Default, conf *filter.ConfigClient, host string) bool {
	f := st.ForConfig(context.Background(), conf)
	req := &filter.Request{
		DNS:      (&dns.Msg{}).SetQuestion(dns.Fqdn(host), dns.TypeA),
		Messages: l.msgs,
		RemoteIP: netip.MustParseAddr("203.0.113.1"),
		Host:     host,
		QType:    dns.TypeA,
		QClass:   dns.ClassINET,
	}
	r, err := f.FilterRequest(context.Background(), req)
	if err != nil {
		panic(err)
	}
	_, ok := r.(*filter.ResultBlocked)

	return ok
}

func confFor(ids []filter.ID, svc bool) *filter.ConfigClient {
	c := &filter.ConfigClient{
		Custom:       &filter.ConfigCustom{},
		Parental:     &filter.ConfigParental{},
		RuleList:     &filter.ConfigRuleList{IDs: ids, Enabled: len(ids) > 0},
		SafeBrowsing: &filter.ConfigSafeBrowsing{},
	}
	if svc {
		c.Parental = &filter.ConfigParental{Enabled: true, BlockedServices: []filter.BlockedServiceID{"svc_a"}}
	}

	return c
}

// servedVersion returns the complete version a component serves (0 = none),
// or an error description when it serves a mixture or a partial version.
func servedVersion(maxVer int, blocked func(host string) bool, tag string) (ver int, bad string) {
	for v := 1; v <= maxVer; v++ {
		n := 0
		for j := 0; j < markers; j++ {
			if blocked(marker(j, v, tag)) {
				n++
			}
		}
		switch {
		case n == 0:
		case n < markers:
			return 0, fmt.Sprintf("serves %d of %d entries of version %d", n, markers, v)
		case ver != 0:
			return 0, fmt.Sprintf("serves versions %d and %d at once", ver, v)
		default:
			ver = v
		}
	}

	return ver, ""
}

type component struct {
	name string
	path string
	tag  string
}

func (l *lab) components() (cs []component) {
	for k := 0; k < l.nLists; k++ {
		cs = append(cs, component{name: string(listID(k)), path: listPath(k), tag: fmt.Sprintf("l%d", k)})
	}
	cs = append(cs, component{name: "services", path: "/services.json", tag: "svc"})
	for _, id := range hashIDs {
		cs = append(cs, component{name: string(id), path: hashPath(id), tag: hashTag(id)})
	}

	return cs
}

func (l *lab) observe(st *filterstorage.Default, hs map[filter.ID]*hashprefix.Storage, maxVer int) (vers map[string]int, bad string) {
	vers = map[string]int{}
	for _, c := range l.components() {
		var blocked func(host string) bool
		switch {
		case strings.HasPrefix(c.path, "/list/"):
			id := filter.ID(c.name)
			blocked = func(h string) bool { return l.blockedBy(st, confFor([]filter.ID{id}, false), h) }
		case c.path == "/services.json":
			blocked = func(h string) bool { return l.blockedBy(st, confFor(nil, true), h) }
		default:
			strg := hs[filter.ID(c.name)]
			blocked = strg.Matches
		}
		v, b := servedVersion(maxVer, blocked, c.tag)
		if b != "" {
			return nil, c.name + " " + b
		}
		vers[c.name] = v
	}

	return vers, ""
}

// checkDisk checks that every cache file is byte-equal to a complete version
// ever published for it.
func (l *lab) checkDisk(dir string) (bad string) {
	ents, _ := os.ReadDir(dir)
	for _, e := range ents {
		name := e.Name()
		known, ok := l.ever[name]
		if !ok {
			// Temporary files of an update in progress are ignored by a
			// restarted process.
			continue
		}
		b, err := os.ReadFile(filepath.Join(dir, name))
		if err != nil {
			return fmt.Sprintf("%s unreadable: %v", name, err)
		}
		if _, ok = known[string(b)]; !ok {
			return fmt.Sprintf("cache file %s (%d bytes) is not a complete version ever served: %q", name, len(b), clip(string(b)))
		}
	}

	return ""
}

func clip(s string) string {
	if len(s) > 120 {
		return s[:120] + "..."
	}

	return s
}

// crashImage copies the cache directory as a killed process leaves it and
// restarts a fresh storage from the copy with the origin unreachable.
func (l *lab) crashImage(site string, maxVer int) {
	s := l.s
	img, err := os.MkdirTemp(filepath.Dir(l.dir), "image")
	if err != nil {
		panic(err)
	}
	defer func() { _ = os.RemoveAll(img) }()

	ents, _ := os.ReadDir(l.dir)
	var names []string
	for _, e := range ents {
		b, rerr := os.ReadFile(filepath.Join(l.dir, e.Name()))
		if rerr != nil {
			continue
		}
		_ = os.WriteFile(filepath.Join(img, e.Name()), b, 0o600)
		// A restarted process sees the modification times the files have.
		if fi, serr := e.Info(); serr == nil {
			_ = os.Chtimes(filepath.Join(img, e.Name()), fi.ModTime(), fi.ModTime())
		}
		names = append(names, fmt.Sprintf("%s(%dB)", e.Name(), len(b)))
	}
	sort.Strings(names)
	l.images++
	s.Fault("kill-during-update")
	s.Logf("crash image at %s: %v", site, names)

	if bad := l.checkDisk(img); bad != "" {
		s.Failf("C13/crash-disk", "a process killed during an update leaves a truncated or mixed cache file",
			"image at %s: %s", site, bad)

		return
	}

	var bad string
	s.Unhooked(func() {
		savedOn := l.faultsOn
		savedDecide := l.origin.Decide
		l.origin.Decide = func(string) (simhttp.Fault, int) { return simhttp.ConnError, 0 }
		defer func() { l.origin.Decide, l.faultsOn = savedDecide, savedOn }()

		st2, hs2, hp2 := l.newStorage(img)
		ctx, cancel := context.WithTimeout(context.Background(), time.Minute)
		defer cancel()
		// With the origin down an initial refresh can only use what is on
		// disk; components without a cache file stay empty.
		_ = st2.RefreshInitial(ctx)
		for _, f := range hp2 {
			_ = f.RefreshInitial(ctx)
		}
		_, bad = l.observe(st2, hs2, maxVer)
	})
	if bad != "" {
		s.Failf("C13/crash-restart", "a process restarted from the cache of a killed update serves a partial or mixed list",
			"image at %s: %s", site, bad)
	}
}

func runC13(s *kernel.Sim, cfg string) {
	t := s.T
	dir, err := os.MkdirTemp(os.TempDir(), "fltsim")
	if err != nil {
		panic(err)
	}
	defer func() { _ = os.RemoveAll(dir) }()
	cacheDir := filepath.Join(dir, "cache")
	_ = os.Mkdir(cacheDir, 0o700)

	l := &lab{s: s, origin: simhttp.NewOrigin(), dir: cacheDir, ever: map[string]map[string]int{}}
	l.nLists = t.Range(1, 3, "lists")
	l.msgs, err = dnsmsg.NewConstructor(&dnsmsg.ConstructorConfig{
		Cloner:              dnsmsg.NewCloner(dnsmsg.EmptyClonerStat{}),
		BlockingMode:        &dnsmsg.BlockingModeNullIP{},
		StructuredErrors:    &dnsmsg.StructuredDNSErrorsConfig{},
		FilteredResponseTTL: 10 * time.Second,
	})
	if err != nil {
		panic(err)
	}

	prev := http.DefaultTransport
	http.DefaultTransport = l.origin
	defer func() { http.DefaultTransport = prev }()

	l.faultsOn = cfg != "nofault"
	faultDen := 3
	if cfg == "single" {
		// One fault in an otherwise clean history.
		faultDen = 0
	}
	singleAt := -1
	downloads := 0
	shortDeadline := false
	if cfg == "single" {
		singleAt = t.Choose(40, "single-fault-at")
	}

	l.origin.Decide = func(path string) (simhttp.Fault, int) {
		downloads++
		f := simhttp.OK
		switch {
		case !l.faultsOn:
		case cfg == "single":
			if downloads-1 == singleAt {
				f = simhttp.Fault(1 + t.Choose(11, "fault-kind"))
			}
		case shortDeadline && t.Chance(1, 2, "stall-under-short-deadline"):
			f = simhttp.Stall
		case t.Chance(1, faultDen, "fault"):
			f = simhttp.Fault(1 + t.Choose(11, "fault-kind"))
		}
		if f == simhttp.Blank && path != "/index.json" && path != "/services.json" {
			// White space is no JSON document; as a list of rules or hosts it
			// would be a list without entries, which is not a failure.
			f = simhttp.EmptyBody
		}
		if f == simhttp.Blank {
			// A complete body as published, which a cache file may hold
			// although no document can be read from it (see publishedJunk).
			cf := l.cacheFileOf(path)
			if l.ever[cf] == nil {
				l.ever[cf] = map[string]int{}
			}
			l.ever[cf]["\n"] = l.currentVer[path]
		}
		param := 0
		switch f {
		case simhttp.Oversized:
			param = int(maxSize) + 200
			if strings.HasPrefix(path, "/hash/") {
				param = int(hashMaxSize) + 200
			}
		case simhttp.LongLine:
			// For a hash list the download succeeds and the parser fails;
			// for everything else the body is over the size limit.
			param = longLine
			if strings.HasPrefix(path, "/hash/") {
				l.publishedJunk(path, longLine)
			}
		case simhttp.CutBody, simhttp.SlowBody, simhttp.OtherSuccess:
			param = t.Choose(200, "fault-param")
		}
		if f != simhttp.OK && f != simhttp.SlowBody {
			s.Fault("http-" + simhttp.Names[f])
		} else if f == simhttp.SlowBody {
			s.Probe("http-slow-body")
		}
		l.roundFaults[path] = f

		return f, param
	}
	l.origin.OnChunk = func(string) { s.Yield("http-chunk") }
	l.origin.NoLength = func(string) bool {
		if t.Chance(1, 3, "no-content-length") {
			s.Probe("http-response-without-length")

			return true
		}

		return false
	}

	l.st, l.hashes, l.hp = l.newStorage(cacheDir)

	crash := cfg != "nocrash"
	maxVer := 0
	s.Invariant = func() {
		if !crash || l.images >= 3 {
			return
		}
		for _, ns := range s.Parked() {
			site := ns[1]
			if ns[0] == "refresher" && (site == "http-chunk" || strings.Contains(site, "refreshable") || strings.Contains(site, "renameio")) {
				if t.Chance(1, 3, "take-image") {
					l.crashImage(site, maxVer)
				}

				return
			}
		}
	}

	rounds := t.Range(1, 5, "rounds")
	served := map[string]int{}
	index := indexText(t, l.nLists)
	s.Go("refresher", func() {
		for r := 1; r <= rounds && s.Failed() == nil; r++ {
			maxVer = r
			// Publish version r of everything; the index keeps its valid
			// entries and changes its invalid ones.
			index = indexText(t, l.nLists)
			l.publish("/index.json", index, r, "rule_lists.json")
			svcInvalid := r > 1 && t.Chance(1, 6, "services-invalid-entry")
			if svcInvalid {
				s.Fault("services-index-invalid-entry")
			}
			l.publish("/services.json", servicesText(r, svcInvalid), r, "services.json")
			for k := 0; k < l.nLists; k++ {
				l.publish(listPath(k), ruleListText(r, fmt.Sprintf("l%d", k)), r, l.cacheFileOf(listPath(k)))
			}
			for _, id := range hashIDs {
				l.publish(hashPath(id), hashListText(r, hashTag(id)), r, l.cacheFileOf(hashPath(id)))
			}

			// Everything cached is stale by now.
			time.Sleep(2 * staleness)

			l.roundFaults = map[string]simhttp.Fault{}
			// The whole refresh has a deadline of its own; a short one can
			// expire in the middle of the list loop when downloads stall.
			refreshTimeout := kernel.Pick(t, []time.Duration{5 * time.Minute, 5 * time.Minute, 15 * time.Second, 25 * time.Second}, "refresh-timeout")
			shortDeadline = refreshTimeout < time.Minute && cfg == ""
			ctx, cancel := context.WithTimeout(context.Background(), refreshTimeout)
			var stErr error
			if r == 1 {
				stErr = l.st.RefreshInitial(ctx)
			} else {
				stErr = l.st.Refresh(ctx)
			}
			deadlineExpired := ctx.Err() != nil
			if deadlineExpired {
				s.Probe("refresh-deadline-expired")
			}
			cancel()
			shortDeadline = false
			hctx, hcancel := context.WithTimeout(context.Background(), 5*time.Minute)
			hpErr := map[filter.ID]error{}
			for _, id := range hashIDs {
				if r == 1 {
					hpErr[id] = l.hp[id].RefreshInitial(hctx)
				} else {
					hpErr[id] = l.hp[id].Refresh(hctx)
				}
			}
			hcancel()

			failed := func(path string) bool {
				f, asked := l.roundFaults[path]
				if path == "/services.json" && svcInvalid {
					return true
				}

				if !asked {
					// Not even requested: that is as good as a failed
					// download only when something excuses it, the deadline
					// of the whole refresh having run out, or the index not
					// having arrived (nothing can be asked for then).
					indexFault, indexAsked := l.roundFaults["/index.json"]
					indexFailed := !indexAsked || (indexFault != simhttp.OK && indexFault != simhttp.SlowBody)

					return deadlineExpired || (path != "/index.json" && indexFailed)
				}

				return f != simhttp.OK && f != simhttp.SlowBody
			}

			// Expected versions, from the statement.
			want := map[string][]int{}
			storageApplied := !failed("/index.json") && !failed("/services.json")
			for k := 0; k < l.nLists; k++ {
				name := string(listID(k))
				switch {
				case failed("/index.json"):
					// Nothing of the round can be applied.
					want[name] = []int{served[name]}
				case failed(listPath(k)):
					want[name] = []int{served[name]}
				default:
					// Every other list serves its previous or its new
					// complete content.
					want[name] = []int{served[name], r}
					if storageApplied {
						want[name] = []int{r}
					}
				}
			}
			switch {
			case failed("/index.json"):
				want["services"] = []int{served["services"]}
			case failed("/services.json"):
				want["services"] = []int{served["services"]}
			default:
				want["services"] = []int{served["services"], r}
			}
			for _, id := range hashIDs {
				if failed(hashPath(id)) {
					want[string(id)] = []int{served[string(id)]}
				} else {
					want[string(id)] = []int{r}
				}
			}

			got, bad := l.observe(l.st, l.hashes, r)
			var fl []string
			for p, f := range l.roundFaults {
				if f != simhttp.OK {
					fl = append(fl, p+"="+simhttp.Names[f])
				}
			}
			sort.Strings(fl)
			s.Logf("round %d: faults %v storage-err=%v -> serving %v", r, fl, stErr != nil, got)
			if bad != "" {
				s.Failf("C13/mixture", "a list serves a partial version or a mixture of versions", "round %d (faults %v): %s", r, fl, bad)

				return
			}

			for name, ws := range want {
				ok := false
				for _, wv := range ws {
					ok = ok || got[name] == wv
				}
				if !ok {
					kind := "a list whose download failed does not serve its previous complete content"
					if got[name] == 0 && served[name] != 0 {
						kind = "a list disappeared after a failed or interrupted update"
					} else if len(ws) == 1 && ws[0] == r {
						kind = "a successfully downloaded list was not applied"
					}
					s.Failf("C13/wrong-version", kind,
						"round %d (faults %v, storage err %v): %s serves version %d, expected one of %v (served %d before)",
						r, fl, stErr, name, got[name], ws, served[name])

					return
				}
			}
			served = got

			// Keys that only invalid records ever carried name no list.
			for _, id := range []filter.ID{"no_url_list", "empty_url", "ftp_list"} {
				if l.st.HasListID(id) {
					s.Failf("C13/invalid-entry-applied", "an invalid index record was applied: a list exists under its key",
						"round %d (faults %v): the storage has a list %q", r, fl, id)

					return
				}
			}

			if bad = l.checkDisk(cacheDir); bad != "" {
				s.Failf("C13/disk", "a cache file is neither the previous nor the new complete version", "round %d: %s", r, bad)

				return
			}
		}
	})
	s.Run()
	if s.Failed() == nil && s.Stuck {
		s.Failf("C13/stuck", "refresh deadlocked", "stuck")
	}
	s.MarkNontrivial()
}

func TestWorker(t *testing.T) {
	kernel.WorkerMain(t, &kernel.Engine{Name: "fltsim", Run: func(s *kernel.Sim, prop, cfg string) {
		switch prop {
		case "C13":
			runC13(s, cfg)
		case "C11":
			runC11(s, cfg)
		case "C12":
			runC12(s, cfg)
		case "C07":
			runC12For(s, "C07", cfg)
		default:
			panic("fltsim: unknown property " + prop)
		}
	}})
}
