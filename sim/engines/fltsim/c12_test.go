package fltsim

import (
	"context"
	"fmt"
	"net/http"
	"net/netip"
	"os"
	"path/filepath"
	"slices"
	"strings"
	"time"

	"github.com/AdguardTeam/AdGuardDNS/internal/dnsmsg"
	"github.com/AdguardTeam/AdGuardDNS/internal/filter"
	"github.com/AdguardTeam/AdGuardDNS/internal/filter/filterstorage"
	"github.com/AdguardTeam/AdGuardDNS/internal/filter/hashprefix"
	"github.com/AdguardTeam/AdGuardDNS/verif/kernel"
	"github.com/AdguardTeam/AdGuardDNS/verif/simhttp"
	"github.com/AdguardTeam/AdGuardDNS/verif/world"
	"github.com/miekg/dns"
)

// C12: result caches are invisible and never survive a refresh.  Storage A
// has every result cache enabled; its twin B is stateless: rule-list and
// service caches are disabled by configuration and the caches that cannot be
// switched off (hash-prefix, custom, safe-search) are emptied before every
// request through the cache manager.  Both load the same list versions from
// the simulated origin.

type requester struct {
	// client is the device name the requester is known by to the custom
	// rules of its profile.
	client string
	name   string

	// How the requester's queries look apart from the question: checking
	// disabled, an OPT record, DNSSEC OK.
	cd, opt, do bool
	msgs   *dnsmsg.Constructor
	conf   *filter.ConfigClient
}

func mkConstructor(mode dnsmsg.BlockingMode, ttl time.Duration) *dnsmsg.Constructor {
	c, err := dnsmsg.NewConstructor(&dnsmsg.ConstructorConfig{
		Cloner:              dnsmsg.NewCloner(dnsmsg.EmptyClonerStat{}),
		BlockingMode:        mode,
		StructuredErrors:    &dnsmsg.StructuredDNSErrorsConfig{},
		FilteredResponseTTL: ttl,
	})
	if err != nil {
		panic(err)
	}

	return c
}

func describeResult(r filter.Result) string {
	switch r := r.(type) {
	case nil:
		return "none"
	case *filter.ResultAllowed:
		return fmt.Sprintf("allowed list=%s rule=%q", r.List, r.Rule)
	case *filter.ResultBlocked:
		return fmt.Sprintf("blocked list=%s rule=%q", r.List, r.Rule)
	case *filter.ResultModifiedRequest:
		// The main middleware restores the ID and the question of the answer
		// to a rewritten request, so the ID of the rewritten request itself
		// is not observable.
		m := r.Msg.Copy()
		m.Id = 0

		return fmt.Sprintf("modreq list=%s rule=%q msg=%s", r.List, r.Rule, oneLine(m))
	case *filter.ResultModifiedResponse:
		return fmt.Sprintf("modresp list=%s rule=%q msg=%s", r.List, r.Rule, oneLine(r.Msg))
	default:
		return fmt.Sprintf("%T", r)
	}
}

func oneLine(m *dns.Msg) string {
	if m == nil {
		return "<nil>"
	}

	return strings.Join(strings.Fields(m.String()), " ")
}

type c12World struct {
	l        *lab
	a, b     *filterstorage.Default
	hpA, hpB map[filter.ID]*hashprefix.Filter
	cmB      *world.CacheManager
	ver      int

	// hashless, if set, decides whether the next version of a hash list has
	// no hosts at all (sequential sub-batches only: the stateless twin is
	// the reference there, not the version markers).
	hashless func() bool

	// ssFocus counts the queries still to be steered to the name every
	// safe-search version with rules rewrites: set when a version without
	// rules is published, so that the name is asked while nothing rewrites
	// it and again afterwards.
	ssFocus int
}

func (w *c12World) publish(ver int) {
	l := w.l
	w.ver = ver
	var fl []string
	for k := 0; k < l.nLists; k++ {
		fl = append(fl, fmt.Sprintf(`{"filterKey":%q,"downloadUrl":%q}`, listID(k), originURL+listPath(k)))
		text := ruleListText(ver, fmt.Sprintf("l%d", k))
		// An allow rule that only some versions carry, and a rule that stays.
		if ver%2 == 0 {
			text += "@@||allowed.shared.test^\n"
		}
		text += "||allowed.shared.test^\n||always.shared.test^\n"
		// A host matched by several rules of several kinds in the first list
		// and allowed again by the second: requesters with different lists
		// get different verdicts from partly shared intermediate results.
		if k == 0 {
			text += "||ads.multi-shared.com^\n||multi-shared.com^\n/^ads\\./\n"
			// (How many rules match decides how much room the slice of the
			// shared result has beyond its length; it varies with the
			// version.)
			more := []string{"|ads.multi-shared.com^", "/multi-shared/", "||ads.multi-shared.*^", "ads.multi-shared.com^", "/shared\\.com/"}
			for _, r := range more[:ver%(len(more)+1)] {
				text += r + "\n"
			}
			// A rule that another list switches off.
			text += "||badf.shared.test^\n"
		} else {
			text += "@@||ads.multi-shared.com^\n"
			// Nothing of this list's own matches the name: all it has to say
			// about it is that the other list's rule does not count.
			text += "||badf.shared.test^$badfilter\n"
		}
		if w.hashless != nil && w.l.s.T.Chance(1, 8, "rule-list-without-rules") {
			// A version without any rule: comments only.  What was asked
			// meanwhile is "not matched", and must not stay so afterwards.
			text = fmt.Sprintf("! version %d of l%d has no rules\n", ver, k)
			w.l.s.Probe("rule-list-without-rules")
		}
		l.origin.Set(listPath(k), text)
	}
	l.origin.Set("/index.json", `{"filters":[`+strings.Join(fl, ",")+`]}`)
	l.origin.Set("/services.json", servicesText(ver, false))
	var ss strings.Builder
	for j := 0; j < markers; j++ {
		fmt.Fprintf(&ss, "|%s^$dnsrewrite=NOERROR;CNAME;safe.v%d.test\n", marker(j, ver, "ss"), ver)
	}
	// A name that every version with rules rewrites.
	ss.WriteString("|always-ss.test^$dnsrewrite=NOERROR;CNAME;safe.always.test\n")
	if w.hashless != nil && w.l.s.T.Chance(1, 5, "safe-search-without-rules") {
		w.l.s.Probe("safe-search-without-rules")
		w.ssFocus = 10
		ss.Reset()
		fmt.Fprintf(&ss, "! version %d has no rules\n", ver)
	}
	l.origin.Set("/ss-general", ss.String())
	for _, id := range hashIDs {
		text := hashListText(ver, hashTag(id)) + "always." + hashTag(id) + ".test\n"
		if w.hashless != nil && w.hashless() {
			// A version without any host: comments and blank lines only.
			text = fmt.Sprintf("# version %d lists nothing\n\n", ver)
			w.l.s.Probe("hash-list-without-hosts")
		}
		l.origin.Set(hashPath(id), text)
	}
}

func (w *c12World) refresh(first bool, which string) {
	ctx, cancel := context.WithTimeout(context.Background(), 5*time.Minute)
	defer cancel()
	do := func(st *filterstorage.Default, hp map[filter.ID]*hashprefix.Filter) {
		var err error
		if first {
			err = st.RefreshInitial(ctx)
		} else {
			err = st.Refresh(ctx)
		}
		if err != nil {
			panic(fmt.Errorf("refresh without faults failed: %w", err))
		}
		for _, id := range hashIDs {
			if first {
				err = hp[id].RefreshInitial(ctx)
			} else {
				err = hp[id].Refresh(ctx)
			}
			if err != nil {
				w.l.s.Failf("C12/refresh-failed", "refresh of a well-formed hash list failed without a fault", "%s: %v", id, err)

				return
			}
		}
	}
	if which != "b" {
		do(w.a, w.hpA)
	}
	if which != "a" {
		do(w.b, w.hpB)
	}
}

func (w *c12World) ask(st *filterstorage.Default, rq *requester, host string, qt uint16) string {
	f := st.ForConfig(context.Background(), rq.conf)
	req := &filter.Request{
		DNS:        (&dns.Msg{}).SetQuestion(dns.Fqdn(host), qt),
		Messages:   rq.msgs,
		RemoteIP:   netip.MustParseAddr("203.0.113.1"),
		ClientName: rq.client,
		Host:       host,
		QType:      qt,
		QClass:     dns.ClassINET,
	}
	req.DNS.Id = 4711
	req.DNS.CheckingDisabled = rq.cd
	if rq.opt {
		req.DNS.SetEdns0(1232, rq.do)
	}
	r, err := f.FilterRequest(context.Background(), req)
	if err != nil {
		return "error: " + err.Error()
	}

	return describeResult(r)
}

func newC12World(s *kernel.Sim, dir string, replacement string) (w *c12World) {
	l := &lab{s: s, origin: simhttp.NewOrigin(), dir: dir, ever: map[string]map[string]int{}}
	l.nLists = 2
	w = &c12World{l: l, cmB: &world.CacheManager{}}
	dirA, dirB := filepath.Join(dir, "a"), filepath.Join(dir, "b")
	_ = os.Mkdir(dirA, 0o700)
	_ = os.Mkdir(dirB, 0o700)
	w.a, _, w.hpA = l.newStorageOpts(dirA, storageOpts{cacheMgr: &world.CacheManager{}, replacement: replacement, safeSearch: true})
	w.b, _, w.hpB = l.newStorageOpts(dirB, storageOpts{cacheMgr: w.cmB, noResCaches: true, replacement: replacement, safeSearch: true})

	return w
}

func genRequesters(t *kernel.Tape) (rs []*requester) {
	modes := []dnsmsg.BlockingMode{
		&dnsmsg.BlockingModeNullIP{},
		&dnsmsg.BlockingModeCustomIP{IPv4: []netip.Addr{netip.MustParseAddr("198.51.100.77")}, IPv6: []netip.Addr{netip.MustParseAddr("2001:db8::77")}},
		&dnsmsg.BlockingModeNXDOMAIN{},
		&dnsmsg.BlockingModeREFUSED{},
	}
	n := t.Range(2, 4, "requesters")
	for i := 0; i < n; i++ {
		rq := &requester{name: fmt.Sprintf("rq%d", i), client: fmt.Sprintf("devrq%d", i)}
		rq.cd = t.Chance(1, 4, "query-cd")
		rq.opt = t.Chance(1, 2, "query-opt")
		rq.do = rq.opt && t.Chance(1, 2, "query-do")
		rq.msgs = mkConstructor(kernel.Pick(t, modes, "mode"), kernel.Pick(t, []time.Duration{10 * time.Second, 300 * time.Second}, "ttl"))
		var ids []filter.ID
		for k := 0; k < 2; k++ {
			if t.Chance(2, 3, "list-on") {
				ids = append(ids, listID(k))
			}
		}
		rq.conf = &filter.ConfigClient{
			Custom: &filter.ConfigCustom{ID: rq.name, UpdateTime: time.Date(2000, 1, 1, 0, 0, 0, 0, time.UTC)},
			Parental: &filter.ConfigParental{
				Enabled: t.Chance(1, 2, "parental"), AdultBlockingEnabled: true, SafeSearchGeneralEnabled: t.Chance(2, 3, "safe-search"),
			},
			RuleList: &filter.ConfigRuleList{IDs: ids, Enabled: len(ids) > 0},
			SafeBrowsing: &filter.ConfigSafeBrowsing{
				Enabled: t.Chance(2, 3, "sb"), DangerousDomainsEnabled: true, NewlyRegisteredDomainsEnabled: t.Chance(1, 2, "nrd"),
			},
		}
		if t.Chance(2, 3, "svc") {
			// One service, the other, or both: what one requester's service
			// says about a host is nothing to a requester with another.
			rq.conf.Parental.BlockedServices = kernel.Pick(t, [][]filter.BlockedServiceID{
				{"svc_a"}, {"svc_b"}, {"svc_a", "svc_b"}, {"svc_b", "svc_a"},
			}, "services")
		}
		if t.Chance(1, 2, "custom") {
			rq.conf.Custom.Enabled = true
			rq.conf.Custom.Rules = []filter.RuleText{"||custom-" + filter.RuleText(rq.name) + ".test^", "@@||always.shared.test^", byClientRule(rq)}
		}
		rs = append(rs, rq)
	}
	if t.Chance(1, 2, "two-devices-of-one-profile") {
		// The second requester is another device of the first one's profile:
		// same custom rules, one of them for the first device only.
		rs[1].conf.Custom = rs[0].conf.Custom
	}

	return rs
}

// byClientHost is a host that custom rules block for one device of a profile
// only; no list knows it.
const byClientHost = "by-client.test"

func byClientRule(owner *requester) filter.RuleText {
	return filter.RuleText("||" + byClientHost + "^$client=" + owner.client)
}

// byClientVerdict is what rq must get for byClientHost: blocked by the custom
// rule of its profile that names it, nothing otherwise.
func byClientVerdict(rq *requester) (blocked bool) {
	c := rq.conf.Custom
	if c == nil || !c.Enabled {
		return false
	}

	return slices.Contains(c.Rules, byClientRule(rq))
}

// judgeByClient checks a verdict for byClientHost against byClientVerdict.
func judgeByClient(s *kernel.Sim, prop string, rq *requester, host string, qt uint16, got string) (ok bool) {
	if host != byClientHost || (qt != dns.TypeA && qt != dns.TypeAAAA) {
		return true
	}
	want := byClientVerdict(rq)
	if strings.HasPrefix(got, "blocked list=custom") == want && (want || got == "none") {
		return true
	}
	s.Failf(prop+"/custom-rule-of-another-device", "a custom rule for one device of a profile decided the request of another (or not its own)",
		"%s (device %s, custom rules %v) asks %s/%d: %s", rq.name, rq.client, rq.conf.Custom.Rules, host, qt, got)

	return false
}

func genHost(t *kernel.Tape, ver int, rs []*requester) (host string) {
	tags := []string{"l0", "l1", "svc", "svb", "ss"}
	for _, id := range hashIDs {
		tags = append(tags, hashTag(id))
	}
	switch t.Choose(8, "host-kind") {
	case 7:
		return byClientHost
	case 0, 1:
		v := ver
		if t.Chance(1, 3, "old-version-host") && ver > 1 {
			v = ver - 1
		}

		return marker(t.Choose(markers, "marker"), v, kernel.Pick(t, tags, "tag"))
	case 2:
		return kernel.Pick(t, []string{"allowed.shared.test", "ads.multi-shared.com", "both.services.test", "always-ss.test", "badf.shared.test", "badf.shared.test"}, "shared-host")
	case 3:
		return "always.shared.test"
	case 4:
		return "custom-" + kernel.Pick(t, rs, "rq").name + ".test"
	case 5:
		h := "always." + hashTag(kernel.Pick(t, hashIDs, "hid")) + ".test"
		if t.Chance(1, 2, "subdomain-of-listed") {
			// A name under a listed one: matched by its parent.
			h = kernel.Pick(t, []string{"www.", "a.b."}, "sub-labels") + h
		}

		return h
	default:
		return "harmless.example"
	}
}

func runC12(s *kernel.Sim, cfg string) { runC12For(s, "C12", cfg) }

// runC12For runs a sub-batch on behalf of property prop: the concurrent
// requesters of "concq" are also C07's subject (each response is the one the
// same request would get if it were processed alone).
func runC12For(s *kernel.Sim, prop, cfg string) {
	t := s.T
	dir, err := os.MkdirTemp(os.TempDir(), "fltsim")
	if err != nil {
		panic(err)
	}
	defer func() { _ = os.RemoveAll(dir) }()

	replacement := "block.sim.test"
	if cfg == "replip" {
		// The hash-prefix filters answer with an address of their own; the
		// response is then built with the requester's message constructor.
		replacement = "198.51.100.99"
	}

	w := newC12World(s, dir, replacement)
	prev := http.DefaultTransport
	http.DefaultTransport = w.l.origin
	defer func() { http.DefaultTransport = prev }()

	// The set-up and the sequential sub-batches run on the scheduler's own
	// goroutine: the inserted yields must fall through there.
	s.Uninstall()

	rs := genRequesters(t)
	first := 1
	if cfg == "concq" {
		// The lists of every version differ in how many of their rules match
		// the shared hosts.
		first = t.Range(1, 6, "first-version")
	}
	w.publish(first)
	w.refresh(true, "")

	if cfg == "concq" {
		// Two requesters that share the first list and the service list but
		// not the second list, the rest as drawn.
		for i, rq := range rs[:2] {
			ids := []filter.ID{listID(0), listID(1)}
			if i == 1 {
				ids = ids[:1]
			}
			rq.conf.RuleList = &filter.ConfigRuleList{IDs: ids, Enabled: true}
			rq.conf.Parental.Enabled = true
			rq.conf.Parental.BlockedServices = []filter.BlockedServiceID{"svc_a"}
			rq.conf.Custom = &filter.ConfigCustom{ID: rq.name, UpdateTime: rq.conf.Custom.UpdateTime}
		}
		if len(rs) >= 4 {
			// And two that are devices of one profile, with a custom rule for
			// one of them only.
			rs[2].conf.Custom = &filter.ConfigCustom{
				ID: rs[2].name, UpdateTime: rs[2].conf.Custom.UpdateTime, Enabled: true,
				Rules: []filter.RuleText{byClientRule(rs[2]), "||custom-" + filter.RuleText(rs[2].name) + ".test^"},
			}
			rs[3].conf.Custom = rs[2].conf.Custom
		}
		s.Install()
		runC12ConcurrentQueries(s, prop, w, rs)

		return
	}

	if cfg == "conc" {
		// Every requester is subject to every component here, so that each
		// query of the focus key exercises its result cache.
		for _, rq := range rs {
			rq.conf.Parental.Enabled = true
			rq.conf.Parental.SafeSearchGeneralEnabled = true
			rq.conf.SafeBrowsing.Enabled = true
			rq.conf.SafeBrowsing.NewlyRegisteredDomainsEnabled = true
			rq.conf.RuleList = &filter.ConfigRuleList{IDs: []filter.ID{listID(0), listID(1)}, Enabled: true}
		}
		s.Install()
		runC12Concurrent(s, w, rs)

		return
	}

	w.hashless = func() bool { return t.Chance(1, 6, "hash-list-without-hosts") }
	n := t.Range(5, 40, "steps")
	for i := 0; i < n && s.Failed() == nil; i++ {
		switch t.Choose(8, "step") {
		case 0:
			w.publish(w.ver + 1)
			time.Sleep(2 * staleness)
			w.refresh(false, "")
			s.Logf("step %d: refreshed to version %d", i, w.ver)
			s.Probe("refresh")

			continue
		case 1:
			rq := kernel.Pick(t, rs, "custom-update")
			// The profile's update time moves on, by a minute or by less
			// than a second.
			rq.conf.Custom.UpdateTime = rq.conf.Custom.UpdateTime.Add(kernel.Pick(t, []time.Duration{
				time.Minute, time.Minute, 300 * time.Millisecond, time.Nanosecond,
			}, "custom-update-step"))
			rq.conf.Custom.Enabled = true
			rq.conf.Custom.Rules = []filter.RuleText{
				filter.RuleText(fmt.Sprintf("||custom-%s-%d.test^", rq.name, i)),
				"||harmless.example^",
			}
			if t.Chance(2, 3, "custom-keeps-device-rule") {
				rq.conf.Custom.Rules = append(rq.conf.Custom.Rules, byClientRule(rq))
			}
			if t.Chance(1, 2, "custom-drops-old") {
				rq.conf.Custom.Rules = append(rq.conf.Custom.Rules, "||custom-"+filter.RuleText(rq.name)+".test^")
			}
			s.Logf("step %d: custom rules of %s updated", i, rq.name)
			s.Probe("custom-update")

			continue
		}

		rq := kernel.Pick(t, rs, "requester")
		host := genHost(t, w.ver, rs)
		if w.ssFocus > 0 {
			w.ssFocus--
			if t.Chance(1, 2, "ask-safe-search-name") {
				host = "always-ss.test"
				rq = rs[0]
				rq.conf.Parental.Enabled, rq.conf.Parental.SafeSearchGeneralEnabled = true, true
			}
		}
		// (The types above 255 are those whose lower octet is that of A, AAAA
		// or HTTPS.)
		qt := kernel.Pick(t, []uint16{
			dns.TypeA, dns.TypeA, dns.TypeAAAA, dns.TypeHTTPS, dns.TypeA, dns.TypeAAAA, dns.TypeHTTPS,
			dns.TypeCAA, 256 + dns.TypeAAAA, 256 + dns.TypeHTTPS, dns.TypeTXT, dns.TypeMX,
		}, "qtype")

		ra := w.ask(w.a, rq, host, qt)
		w.cmB.ClearAll()
		rb := w.ask(w.b, rq, host, qt)
		s.Logf("step %d: %s asks %s/%d -> %s", i, rq.name, host, qt, clip(ra))
		if ra != "none" {
			s.MarkNontrivial()
		}
		if !judgeByClient(s, "C12", rq, host, qt, ra) {
			return
		}
		if ra != rb {
			kind := "verdict differs with result caches enabled"
			if strings.HasPrefix(ra, "modresp") && strings.HasPrefix(rb, "modresp") {
				kind = "filtered response built for another requester served from a result cache"
			}
			s.Failf("C12/cache-visible", kind,
				"step %d: %s asks %s/%d (version %d):\n with caches:    %s\n stateless twin: %s", i, rq.name, host, qt, w.ver, ra, rb)

			return
		}
	}
}

// runC12Concurrent runs refreshes of storage A concurrently with queries.  A
// query that starts after a refresh has returned must get the new version's
// verdict; a query overlapping a refresh may get either.
func runC12Concurrent(s *kernel.Sim, w *c12World, rs []*requester) {
	t := s.T
	tick := 0
	stamp := func() int { tick++; return tick }

	type refreshSpan struct{ begin, end, ver int }
	spans := []refreshSpan{{0, 0, 1}}

	nRefresh := t.Range(1, 3, "refreshes")
	s.Go("refresher", func() {
		for r := 0; r < nRefresh; r++ {
			s.Yield("before-refresh")
			w.publish(w.ver + 1)
			time.Sleep(2 * staleness)
			sp := refreshSpan{begin: stamp(), ver: w.ver}
			w.refresh(false, "a")
			sp.end = stamp()
			spans = append(spans, sp)
			s.Logf("refresher: version %d in force, span [%d,%d]", sp.ver, sp.begin, sp.end)
		}
	})

	tags := []string{"l0", "l1", "ss", "ss"}
	for _, id := range hashIDs {
		tags = append(tags, hashTag(id))
	}

	// Most queries of a run go to one entry of one component, so that the
	// same result-cache key is asked before, during and after a refresh.
	focusTag := kernel.Pick(t, tags, "focus-tag")

	nq := t.Range(1, 3, "query-tasks")
	for qi := 0; qi < nq; qi++ {
		name := fmt.Sprintf("query%d", qi)
		n := t.Range(4, 24, "queries")
		s.Go(name, func() {
			for i := 0; i < n; i++ {
				// Queries are spread over simulated time, so that they fall
				// before, during and after the refreshes.
				time.Sleep(kernel.Pick(t, []time.Duration{0, 0, 20 * time.Minute, time.Hour, 2 * time.Hour}, "query-gap"))
				s.Yield("before-query")
				rq := kernel.Pick(t, rs, "requester")
				tag := focusTag
				mk := 0
				if t.Chance(1, 5, "other-key") {
					tag = kernel.Pick(t, tags, "tag")
					mk = t.Choose(markers, "marker")
				}
				// The version in force, the one before it, or the next one.
				v := w.ver - 1 + t.Choose(3, "marker-version")
				if v < 1 {
					v = 1
				}
				host := marker(mk, v, tag)
				begin := stamp()
				res := w.ask(w.a, rq, host, dns.TypeA)
				end := stamp()

				// Which versions may be in force during [begin, end]?
				allowed := map[int]bool{}
				cur := 1
				for _, sp := range spans {
					if sp.end <= begin && sp.ver > cur {
						cur = sp.ver
					}
				}
				allowed[cur] = true
				for _, sp := range spans {
					if sp.ver > cur && sp.begin <= end {
						allowed[sp.ver] = true
					}
				}
				// Refreshes that have begun but not yet recorded their span.
				if w.ver > cur {
					for vv := cur + 1; vv <= w.ver; vv++ {
						allowed[vv] = true
					}
				}

				// Is the requester subject to the component at all?
				subject := false
				switch {
				case tag == "l0" || tag == "l1":
					for _, id := range rq.conf.RuleList.IDs {
						subject = subject || string(id) == "list_"+tag[1:]
					}
					subject = subject && rq.conf.RuleList.Enabled
				case tag == "ss":
					subject = rq.conf.Parental.Enabled && rq.conf.Parental.SafeSearchGeneralEnabled
				case tag == hashTag(filter.IDAdultBlocking):
					subject = rq.conf.Parental.Enabled
				case tag == hashTag(filter.IDSafeBrowsing):
					subject = rq.conf.SafeBrowsing.Enabled
				default:
					subject = rq.conf.SafeBrowsing.Enabled && rq.conf.SafeBrowsing.NewlyRegisteredDomainsEnabled
				}

				filtered := res != "none"
				s.Logf("%s: %s asks %s [%d,%d] -> %s (versions possible %v, subject %v)", name, rq.name, host, begin, end, clip(res), allowed, subject)
				if !subject {
					continue
				}
				s.MarkNontrivial()

				if filtered && !allowed[v] {
					s.Failf("C12/stale-after-refresh", "request answered from a result computed with an old list version after the refresh had returned",
						"%s: %s asks %s (entry of version %d) at [%d,%d]: filtered although only versions %v can be in force; spans %v",
						name, rq.name, host, v, begin, end, allowed, spans)

					return
				}
				if !filtered && len(allowed) == 1 && allowed[v] {
					s.Failf("C12/missed-after-refresh", "request not filtered by the list version in force",
						"%s: %s asks %s (entry of version %d) at [%d,%d]: not filtered although version %d is in force; spans %v",
						name, rq.name, host, v, begin, end, v, spans)

					return
				}
			}
		})
	}

	s.Run()
	if s.Failed() == nil && s.Stuck {
		s.Failf("C12/stuck", "filter storage deadlocked", "stuck")
	}
}

// runC12ConcurrentQueries: requesters with different configurations ask the
// same hosts at the same time, no list changes.  Every answer must be the one
// the stateless twin gives the same requester for the same question: results
// held in the caches are shared between requests and must not be changed by
// any of them.
func runC12ConcurrentQueries(s *kernel.Sim, prop string, w *c12World, rs []*requester) {
	class, witness := "C12/cache-visible", "verdict under concurrent requests differs from the stateless twin's"
	if prop == "C07" {
		class, witness = "C07/filter-verdict", "verdict under concurrent requests of several profiles is not the one the request gets alone"
	}
	t := s.T
	type rec struct {
		rq   *requester
		host string
		qt   uint16
		got  string
		task string
	}
	var recs []*rec
	hosts := []string{"ads.multi-shared.com", "ads.multi-shared.com", "allowed.shared.test", "always.shared.test", marker(0, w.ver, "l0"), marker(0, w.ver, "svc"), byClientHost}
	focus := kernel.Pick(t, hosts, "focus-host")
	if t.Chance(1, 2, "focus-multi") {
		focus = "ads.multi-shared.com"
	}

	nq := t.Range(2, 3, "query-tasks")
	for qi := 0; qi < nq; qi++ {
		name := fmt.Sprintf("query%d", qi)
		var mine []*rec
		for i, n := 0, t.Range(2, 10, "queries"); i < n; i++ {
			r := &rec{rq: kernel.Pick(t, rs, "requester"), host: focus, qt: dns.TypeA, task: name}
			if t.Chance(1, 4, "other-host") {
				r.host = kernel.Pick(t, hosts, "host")
			}
			if t.Chance(1, 5, "other-type") {
				r.qt = dns.TypeAAAA
			}
			mine = append(mine, r)
			recs = append(recs, r)
		}
		s.Go(name, func() {
			for _, r := range mine {
				s.Yield("before-query")
				r.got = w.ask(w.a, r.rq, r.host, r.qt)
			}
		})
	}
	s.Run()
	if s.Failed() != nil {
		return
	}
	if s.Stuck {
		s.Failf(prop+"/stuck", "filter storage deadlocked", "stuck")

		return
	}

	s.Uninstall()
	for _, r := range recs {
		w.cmB.ClearAll()
		want := w.ask(w.b, r.rq, r.host, r.qt)
		s.Logf("%s: %s asks %s/%d -> %s", r.task, r.rq.name, r.host, r.qt, clip(r.got))
		if r.got != "none" {
			s.MarkNontrivial()
		}
		if !judgeByClient(s, prop, r.rq, r.host, r.qt, r.got) {
			return
		}
		if r.got != want {
			s.Failf(class, witness,
				"%s: %s asks %s/%d:\n with caches, concurrently: %s\n stateless twin:            %s", r.task, r.rq.name, r.host, r.qt, r.got, want)

			return
		}
	}
}
