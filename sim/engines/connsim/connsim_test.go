// Package connsim simulates the stream-connection limiter (property C18,
// connection part): real connlimiter.Limiter over simulated listeners, with
// accept loops, dialers, closers and listener shutdown interleaved by the
// kernel's scheduler.
package connsim

import (
	"errors"
	"fmt"
	"log/slog"
	"net"
	"testing"
	"time"

	"github.com/AdguardTeam/AdGuardDNS/internal/connlimiter"
	"github.com/AdguardTeam/AdGuardDNS/internal/dnsserver"
	"github.com/AdguardTeam/AdGuardDNS/verif/kernel"
)

type addr string

func (a addr) Network() string { return "sim" }
func (a addr) String() string  { return string(a) }

// innerConn is the connection the simulated listener hands out.
type innerConn struct {
	w      *world
	id     int
	lsnr   int
	closes int
}

func (c *innerConn) Read([]byte) (int, error)         { return 0, errors.New("sim: no data") }
func (c *innerConn) Write(b []byte) (int, error)      { return len(b), nil }
func (c *innerConn) LocalAddr() net.Addr              { return addr("local") }
func (c *innerConn) RemoteAddr() net.Addr             { return addr(fmt.Sprintf("client%d", c.id)) }
func (c *innerConn) SetDeadline(time.Time) error      { return nil }
func (c *innerConn) SetReadDeadline(time.Time) error  { return nil }
func (c *innerConn) SetWriteDeadline(time.Time) error { return nil }

func (c *innerConn) Close() (err error) {
	c.closes++
	if c.closes > 1 {
		// Not a violation by itself: the property speaks of the slot, which
		// the counting oracles watch.
		c.w.s.Probe("underlying-conn-closed-twice")
	}
	c.w.s.Logf("conn %d: underlying close #%d begins", c.id, c.closes)

	// Closing a real connection takes time: another task may run meanwhile.
	c.w.s.Yield("underlying-close")

	return nil
}

// innerListener is a simulated listener: Accept blocks (durably) until a
// client is queued or the listener is closed.
type innerListener struct {
	w      *world
	idx    int
	queue  chan *innerConn
	closed chan struct{}
	isCl   bool

	// closeErr makes the first Close report an error although the listener
	// is closed by it, as a socket's close can.
	closeErr bool
}

func (l *innerListener) Accept() (c net.Conn, err error) {
	w := l.w
	w.passGate(l.idx)
	defer func() { w.pending[l.idx]-- }()

	select {
	case <-l.closed:
		return nil, net.ErrClosed
	default:
	}

	select {
	case ic := <-l.queue:
		return ic, nil
	case <-l.closed:
		return nil, net.ErrClosed
	}
}

func (l *innerListener) Close() (err error) {
	if l.isCl {
		return net.ErrClosed
	}

	l.isCl = true
	close(l.closed)
	if l.closeErr {
		l.w.s.Fault("inner-close-reports-error")

		return errors.New("sim listener: close: input/output error")
	}

	return nil
}

func (l *innerListener) Addr() net.Addr { return addr(fmt.Sprintf("lsnr%d", l.idx)) }

type world struct {
	s      *kernel.Sim
	stop   int
	resume int

	// Reference model of the statement's hysteresis.
	count     int
	accepting bool

	pending  []int // accepts past the gate, inside the inner listener
	passed   []bool
	conns    map[string]*innerConn
	waiting  []int // Accept calls invoked and not yet past the gate
	lclosed  []bool
	handed   []*handed
	everStop bool

	// acceptOnClosed is set when an accept loop invoked Accept on a listener
	// that had already been closed.
	acceptOnClosed bool
}

type handed struct {
	c        net.Conn
	inner    *innerConn
	released bool
	closing  int
}

// passGate is called when an accept got through the limiter's gate.
func (w *world) passGate(l int) {
	s := w.s
	w.waiting[l]--
	w.pending[l]++
	w.passed[l] = true

	if !w.accepting {
		s.Failf("C18/accepted-while-stopped", "accept passed the gate while the limiter was stopped",
			"listener %d: accept passed with count=%d stop=%d resume=%d (must wait until count <= resume)",
			l, w.count, w.stop, w.resume)
	}

	w.count++
	if w.count >= w.stop {
		w.accepting = false
		w.everStop = true
		s.Probe("stop-threshold-reached")
	}

	if w.count > w.stop {
		s.Failf("C18/over-limit", "open plus pending connections exceed stop",
			"count=%d > stop=%d", w.count, w.stop)
	}

	s.Logf("lsnr%d: accept passed gate, count=%d accepting=%v", l, w.count, w.accepting)
}

// release is called when a connection (or a failed pending accept) has given
// its slot back.
func (w *world) release(what string) {
	w.count--
	if w.count < 0 {
		w.s.Failf("C18/negative", "more releases than acquisitions", "count=%d after %s", w.count, what)
	}

	if w.count <= w.resume {
		if !w.accepting && w.everStop {
			w.s.Probe("resumed-after-stop")
		}
		w.accepting = true
	}

	w.s.Logf("%s: released, count=%d accepting=%v", what, w.count, w.accepting)
}

func (w *world) invariant() {
	open := 0
	for _, h := range w.handed {
		if h.inner.closes == 0 {
			open++
		}
	}

	pend := 0
	for _, p := range w.pending {
		pend += p
	}

	if open+pend > w.stop {
		w.s.Failf("C18/over-limit", "open plus pending connections exceed stop",
			"open=%d pending=%d stop=%d", open, pend, w.stop)
	}
}

func run(s *kernel.Sim, _, cfg string) {
	t := s.T
	w := &world{s: s, accepting: true}
	w.stop = t.Range(1, 5, "stop")
	w.resume = t.Range(0, w.stop, "resume")
	nL := t.Range(1, 3, "listeners")
	if cfg == "multi" && nL < 2 {
		nL = 2
	}

	lim, err := connlimiter.New(&connlimiter.Config{
		Logger: slog.New(slog.DiscardHandler),
		Stop:   uint64(w.stop),
		Resume: uint64(w.resume),
	})
	if err != nil {
		panic(err)
	}

	s.Logf("config stop=%d resume=%d listeners=%d", w.stop, w.resume, nL)

	inners := make([]*innerListener, nL)
	lsnrs := make([]net.Listener, nL)
	w.pending = make([]int, nL)
	w.waiting = make([]int, nL)
	w.passed = make([]bool, nL)
	w.conns = map[string]*innerConn{}
	w.lclosed = make([]bool, nL)
	for i := range inners {
		inners[i] = &innerListener{
			w:      w,
			idx:    i,
			queue:  make(chan *innerConn, 64),
			closed: make(chan struct{}),

			closeErr: t.Chance(1, 4, "inner-close-fails"),
		}
		lsnrs[i] = lim.Limit(inners[i], &dnsserver.ServerInfo{
			Name:  fmt.Sprintf("srv%d", i),
			Addr:  fmt.Sprintf("lsnr%d", i),
			Proto: dnsserver.ProtoDNS,
		})
	}

	s.Invariant = w.invariant

	acceptorDone := make([]bool, nL)
	for i := range lsnrs {
		i := i
		s.Go(fmt.Sprintf("accept%d", i), func() {
			defer func() { acceptorDone[i] = true }()
			for {
				w.waiting[i]++
				w.passed[i] = false
				if w.lclosed[i] {
					w.acceptOnClosed = true
					s.Probe("accept-on-closed-listener")
				}
				c, aerr := lsnrs[i].Accept()
				if aerr != nil {
					if w.passed[i] {
						w.release(fmt.Sprintf("lsnr%d failed pending accept", i))
					} else {
						// Returned from the gate without passing it.
						w.waiting[i]--
					}

					if !errors.Is(aerr, net.ErrClosed) {
						s.Failf("C18/closed-accept-error", "Accept on a closed listener did not return net.ErrClosed",
							"listener %d: %v", i, aerr)
					}

					if !w.lclosed[i] {
						s.Failf("C18/spurious-accept-error", "Accept failed on an open listener",
							"listener %d: %v", i, aerr)
					}

					s.Logf("accept%d: exit: %v", i, aerr)

					return
				}

				ic := w.conns[c.RemoteAddr().String()]
				w.handed = append(w.handed, &handed{c: c, inner: ic})
				s.Logf("accept%d: handed conn %d", i, ic.id)
			}
		})
	}

	nConn := t.Range(1, 10, "dials")
	s.Go("dialer", func() {
		for k := 0; k < nConn; k++ {
			s.Yield("dial")
			l := t.Choose(nL, "dial-listener")
			ic := &innerConn{w: w, id: k, lsnr: l}
			w.conns[ic.RemoteAddr().String()] = ic
			s.Logf("dialer: client %d -> lsnr%d", k, l)
			inners[l].queue <- ic
		}
	})

	nClosers := t.Range(1, 2, "closers")
	for ci := 0; ci < nClosers; ci++ {
		name := fmt.Sprintf("closer%d", ci)
		ops := t.Range(1, 10, "close-ops")
		s.Go(name, func() {
			for k := 0; k < ops; k++ {
				s.Yield("close-op")
				if len(w.handed) == 0 {
					continue
				}

				h := w.handed[t.Choose(len(w.handed), "close-which")]
				if h.closing > 0 {
					s.Probe("double-close")
				}
				h.closing++
				first := h.inner.closes == 0
				cerr := h.c.Close()
				s.Logf("%s: close conn %d first=%v err=%v", name, h.inner.id, first, cerr)
				if first && !h.released {
					h.released = true
					w.release(fmt.Sprintf("conn %d", h.inner.id))
				}
			}
		})
	}

	if t.Chance(1, 3, "listener-closer") {
		s.Go("lcloser", func() {
			n := t.Range(1, 4, "lclose-delay")
			for k := 0; k < n; k++ {
				s.Yield("lclose-wait")
			}
			l := t.Choose(nL, "lclose-which")
			w.lclosed[l] = true
			s.Fault("listener-closed")
			cerr := lsnrs[l].Close()
			s.Logf("lcloser: closed lsnr%d err=%v", l, cerr)
			if t.Chance(1, 2, "lclose-twice") {
				cerr = lsnrs[l].Close()
				if !errors.Is(cerr, net.ErrClosed) {
					s.Failf("C18/double-listener-close", "second Close of a listener did not return net.ErrClosed",
						"listener %d: %v", l, cerr)
				}
			}
		})
	}

	s.QuietOK = true
	s.IdleQuantum = time.Second
	s.Run()
	if s.Failed() != nil || s.Capped {
		return
	}

	// Operations have stopped.  Bounded liveness: a waiting accept on an open
	// listener must have got through if the limiter is accepting.
	for i := range lsnrs {
		if w.lclosed[i] {
			if !acceptorDone[i] {
				s.Failf("C18/closed-listener-waiter", "closing a listener did not release its waiting accept",
					"listener %d closed, its Accept still blocked (waiting=%d pending=%d)", i, w.waiting[i], w.pending[i])
			}

			continue
		}

		if w.waiting[i] > 0 {
			s.Probe("waiter-at-quiescence")
			if w.accepting {
				wit := "waiting accept does not proceed although the limiter accepts again"
				for _, c := range w.lclosed {
					if c {
						wit += " (a listener had been closed)"

						break
					}
				}
				s.Failf("C18/waiter-not-resumed", wit,
					"listener %d: Accept still waiting at quiescence with count=%d stop=%d resume=%d accepting=true",
					i, w.count, w.stop, w.resume)
			}
		}
	}
	if s.Failed() != nil {
		return
	}

	// Shut down: close the listeners, let the accept loops end, then close
	// every connection that was handed out.
	s.Go("shutdown-listeners", func() {
		for i, l := range lsnrs {
			if !w.lclosed[i] {
				w.lclosed[i] = true
				_ = l.Close()
			}
		}
	})
	s.QuietOK = false
	s.Run()
	if s.Failed() != nil {
		return
	}

	if s.Stuck {
		s.Failf("C18/shutdown-stuck", "accept loops did not end after all listeners were closed", "stuck at shutdown")

		return
	}

	s.Go("shutdown-conns", func() {
		for _, h := range w.handed {
			if h.inner.closes == 0 {
				_ = h.c.Close()
				if !h.released {
					h.released = true
					w.release(fmt.Sprintf("conn %d (shutdown)", h.inner.id))
				}
			}
		}
	})
	s.Run()
	if s.Failed() != nil {
		return
	}

	if s.Stuck {
		s.Failf("C18/shutdown-stuck", "accept loops did not end after all listeners were closed", "stuck at shutdown")

		return
	}

	// Every connection releases exactly once: after closing everything the
	// model count must be the number of accepted-but-unclaimed clients (0).
	if w.count != 0 {
		s.Failf("C18/leak", "slots not returned after everything was closed", "count=%d", w.count)
	}
}

func TestWorker(t *testing.T) {
	kernel.WorkerMain(t, &kernel.Engine{Name: "connsim", Run: run})
}
