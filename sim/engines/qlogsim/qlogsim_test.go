// Package qlogsim simulates concurrent query-log writers (property C15,
// record-integrity part): the real querylog.FileSystem appending to a real
// scratch file, several writer tasks interleaved by the kernel's scheduler at
// yields inserted before every file operation.
package qlogsim

import (
	"bufio"
	"bytes"
	"context"
	"encoding/json"
	"fmt"
	"log/slog"
	"net/netip"
	"os"
	"path/filepath"
	"strings"
	"testing"
	"time"

	"github.com/AdguardTeam/AdGuardDNS/internal/agd"
	"github.com/AdguardTeam/AdGuardDNS/internal/dnsmsg"
	"github.com/AdguardTeam/AdGuardDNS/internal/filter"
	"github.com/AdguardTeam/AdGuardDNS/internal/querylog"
	"github.com/AdguardTeam/AdGuardDNS/verif/kernel"
)

type written struct {
	e      *querylog.Entry
	u      string
	rule   string
	list   string
	code   string
	hasIP  bool
	name   string
	ok     bool
	writer string
}

func run(s *kernel.Sim, _, cfg string) {
	t := s.T
	dir, err := os.MkdirTemp(os.TempDir(), "qlogsim")
	if err != nil {
		panic(err)
	}
	defer func() { _ = os.RemoveAll(dir) }()

	path := filepath.Join(dir, "querylog.jsonl")
	ql := querylog.NewFileSystem(&querylog.FileSystemConfig{
		Logger:   slog.New(slog.DiscardHandler),
		Path:     path,
		RandSeed: 1,
	})

	nWriters := t.Range(1, 5, "writers")
	if cfg == "sequential" {
		nWriters = 1
	}
	var all []*written
	seq := 0
	for wi := 0; wi < nWriters; wi++ {
		name := fmt.Sprintf("writer%d", wi)
		n := t.Range(1, 12, "entries")
		var mine []*written
		for j := 0; j < n; j++ {
			seq++
			var id agd.RequestID
			copy(id[:], fmt.Sprintf("%08d", seq))
			long := t.Chance(1, 4, "long")
			host := fmt.Sprintf("h%d.example.", seq)
			if long {
				host = strings.Repeat("l", 60) + "." + strings.Repeat("m", 60) + "." + host
			}
			w := &written{u: id.String(), name: host, writer: name}
			e := &querylog.Entry{
				Time:          time.Date(2000, 1, 1, 0, 0, seq, 0, time.UTC),
				RequestID:     id,
				ProfileID:     agd.ProfileID(fmt.Sprintf("prof%d", t.Choose(3, "prof"))),
				DeviceID:      agd.DeviceID(fmt.Sprintf("dev%d", t.Choose(5, "dev"))),
				DomainFQDN:    host,
				RequestType:   uint16(1 + t.Choose(40, "qtype")),
				ResponseCode:  dnsmsg.RCode(t.Choose(6, "rcode")),
				Protocol:      agd.Protocol(1 + t.Choose(5, "proto")),
				Elapsed:       time.Duration(t.Choose(2000, "elapsed")) * time.Millisecond,
				ClientCountry: "DE",
			}
			if t.Chance(1, 2, "ip") {
				e.RemoteIP = netip.AddrFrom4([4]byte{10, 0, byte(seq >> 8), byte(seq)})
				w.hasIP = true
			}
			w.code = "1"
			switch t.Choose(6, "result") {
			case 3:
				// Both stages matched: the verdict on the request comes first
				// and is the one that was applied.
				w.list, w.rule = "list_allow", "@@||"+strings.TrimSuffix(host, ".")+"^"
				w.code = "4"
				e.RequestResult = &filter.ResultAllowed{List: filter.ID(w.list), Rule: filter.RuleText(w.rule)}
				e.ResponseResult = &filter.ResultBlocked{List: "list_resp", Rule: "||cname-of-" + filter.RuleText(strings.TrimSuffix(host, ".")) + "^"}
			case 4:
				w.list, w.rule = "list_block", "||"+strings.TrimSuffix(host, ".")+"^"
				w.code = "2"
				e.RequestResult = &filter.ResultBlocked{List: filter.ID(w.list), Rule: filter.RuleText(w.rule)}
				e.ResponseResult = &filter.ResultAllowed{List: "list_resp", Rule: "@@||cname-of-" + filter.RuleText(strings.TrimSuffix(host, ".")) + "^"}
			case 1:
				w.list, w.rule = "list_a", "||"+strings.TrimSuffix(host, ".")+"^"
				if long {
					w.rule += "$dnstype=A|AAAA," + strings.Repeat("x", 3000)
				}
				e.RequestResult = &filter.ResultBlocked{List: filter.ID(w.list), Rule: filter.RuleText(w.rule)}
				w.code = "2"
			case 2:
				w.code = "5"
				w.list, w.rule = "list_b", "@@||"+strings.TrimSuffix(host, ".")+"^"
				e.ResponseResult = &filter.ResultAllowed{List: filter.ID(w.list), Rule: filter.RuleText(w.rule)}
			}
			w.e = e
			mine = append(mine, w)
			all = append(all, w)
		}

		s.Go(name, func() {
			for _, w := range mine {
				s.Yield("before-write")
				werr := ql.Write(context.Background(), w.e)
				w.ok = werr == nil
				if werr != nil {
					s.Logf("%s: write %s: %v", name, w.u, werr)
				}
			}
		})
	}

	s.Run()
	if s.Failed() != nil || s.Capped {
		return
	}
	if s.Stuck {
		s.Failf("C15/stuck", "query log writers deadlocked", "stuck")

		return
	}

	data, err := os.ReadFile(path)
	if err != nil {
		s.Failf("C15/file", "query log file unreadable", "%v", err)

		return
	}
	if len(data) > 0 && data[len(data)-1] != '\n' {
		s.Failf("C15/torn-line", "log file does not end with a complete line", "last bytes %q", data[max(0, len(data)-40):])

		return
	}

	byU := map[string]*written{}
	for _, w := range all {
		byU[w.u] = w
	}
	seen := map[string]int{}
	sc := bufio.NewScanner(bytes.NewReader(data))
	sc.Buffer(make([]byte, 1<<20), 1<<20)
	ln := 0
	for sc.Scan() {
		ln++
		line := sc.Bytes()
		var m map[string]any
		dec := json.NewDecoder(bytes.NewReader(line))
		if derr := dec.Decode(&m); derr != nil || dec.More() {
			s.Failf("C15/torn-line", "log line is not one complete JSON object", "line %d: %q (%v)", ln, clip(line), derr)

			return
		}

		u, _ := m["u"].(string)
		w := byU[u]
		if w == nil {
			s.Failf("C15/unknown-line", "log line belongs to no written entry", "line %d: %q", ln, clip(line))

			return
		}
		seen[u]++

		ip, hasIP := m["ip"]
		if hasIP != w.hasIP {
			s.Failf("C15/client-ip", "client address in a log line although the entry had none (or missing although it had one)",
				"line %d entry %s (%s): entry ip=%v, line ip=%v", ln, u, w.writer, w.e.RemoteIP, ip)

			return
		}
		if hasIP && ip != w.e.RemoteIP.String() {
			s.Failf("C15/client-ip", "log line carries another entry's client address", "line %d: %v vs %v", ln, ip, w.e.RemoteIP)

			return
		}

		get := func(k string) string {
			v, ok := m[k]
			if !ok {
				return ""
			}

			return fmt.Sprint(v)
		}
		want := map[string]string{
			"b": string(w.e.ProfileID), "i": string(w.e.DeviceID), "n": w.e.DomainFQDN,
			"q": fmt.Sprint(w.e.RequestType), "r": fmt.Sprint(w.e.ResponseCode), "p": fmt.Sprint(uint8(w.e.Protocol)),
			"l": w.list, "m": w.rule, "f": w.code, "t": fmt.Sprint(w.e.Time.UnixMilli()), "c": "DE",
			"e": fmt.Sprint(w.e.Elapsed.Milliseconds()),
		}
		for k, v := range want {
			g := get(k)
			if k == "t" {
				// encoding/json decodes numbers as float64.
				if f, ok := m[k].(float64); ok {
					g = fmt.Sprint(int64(f))
				}
			}
			if g != v {
				s.Failf("C15/entry-fields", "log line does not carry its own entry's data",
					"line %d entry %s: field %q is %q, want %q", ln, u, k, clip([]byte(g)), clip([]byte(v)))

				return
			}
		}
	}

	for _, w := range all {
		if w.ok && seen[w.u] != 1 {
			s.Failf("C15/line-count", "a successful Write did not produce exactly one line", "entry %s (%s): %d lines", w.u, w.writer, seen[w.u])

			return
		}
	}
	s.Probe("lines-checked")
}

func clip(b []byte) string {
	if len(b) > 160 {
		return string(b[:160]) + "..."
	}

	return string(b)
}

func TestWorker(t *testing.T) {
	kernel.WorkerMain(t, &kernel.Engine{Name: "qlogsim", Run: run})
}
