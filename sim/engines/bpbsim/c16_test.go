// Package bpbsim simulates the business-logic backend behind the real gRPC
// clients of internal/backendpb (properties C14 and C16): a gRPC server
// implementing the backend's service runs in the bubble on the simulated
// network; the repository's ProfileStorage and BillStat talk to it through
// real gRPC, and the real profile database and billing recorder sit on top of
// them.  Faults are the backend's: errors before, in the middle of and at the
// end of a stream, deadlines, replies lost on the way back.
package bpbsim

import (
	"context"
	"fmt"
	"io"
	"log/slog"
	"net"
	"net/netip"
	"net/url"
	"sort"
	"testing"
	"time"

	"github.com/AdguardTeam/AdGuardDNS/internal/agd"
	"github.com/AdguardTeam/AdGuardDNS/internal/backendpb"
	"github.com/AdguardTeam/AdGuardDNS/internal/billstat"
	"github.com/AdguardTeam/AdGuardDNS/internal/geoip"
	"github.com/AdguardTeam/AdGuardDNS/verif/kernel"
	"github.com/AdguardTeam/AdGuardDNS/verif/simnet"
	"google.golang.org/grpc"
	"google.golang.org/grpc/codes"
	"google.golang.org/grpc/status"
	"google.golang.org/protobuf/types/known/emptypb"
)

const backendAddr = "198.18.9.1:6062"

type nopErrColl struct{ errs []error }

func (c *nopErrColl) Collect(_ context.Context, err error) { c.errs = append(c.errs, err) }

// backend is the simulated business-logic backend.
type backend struct {
	backendpb.UnimplementedDNSServiceServer

	s *kernel.Sim

	// ---- billing ----

	// billFault is the fault of the next upload: "" none, "before" an error
	// before anything is read, "middle" after billAt records, "end" an error
	// instead of the final reply, "deadline" like "end" with the deadline
	// status, "lost-reply" the reply is sent and the connection is cut.
	billFault string
	billAt    int

	// billCalls is the log of uploads as the backend saw them.
	billCalls []*billCall

	// ---- profiles (c14_test.go) ----
	prof *profBackend
}

type billCall struct {
	got       []*backendpb.DeviceBillingStat
	committed bool

	// early is set when the backend replied OK without reading the whole
	// stream.
	early bool
}

func (b *backend) SaveDevicesBillingStat(stream grpc.ClientStreamingServer[backendpb.DeviceBillingStat, emptypb.Empty]) error {
	c := &billCall{}
	b.billCalls = append(b.billCalls, c)
	fault, at := b.billFault, b.billAt
	b.billFault = ""

	if fault == "before" {
		b.s.Fault("backend-error-before-stream")

		return status.Error(codes.Unavailable, "sim backend: unavailable")
	}

	for {
		rec, err := stream.Recv()
		if err == io.EOF {
			break
		}
		if err != nil {
			return err
		}
		c.got = append(c.got, rec)
		if fault == "middle" && len(c.got) >= at {
			b.s.Fault("backend-error-mid-stream")

			return status.Error(codes.Internal, "sim backend: storage failure")
		}
		if fault == "ok-early" && len(c.got) >= at {
			// The reply comes while the client is still sending.
			b.s.Fault("backend-ok-before-end-of-stream")
			c.committed, c.early = true, true

			return stream.SendAndClose(&emptypb.Empty{})
		}
	}

	switch fault {
	case "end":
		b.s.Fault("backend-error-at-end")

		return status.Error(codes.Unavailable, "sim backend: commit failed")
	case "deadline":
		b.s.Fault("backend-deadline-exceeded")

		return status.Error(codes.DeadlineExceeded, "sim backend: deadline exceeded")
	}

	c.committed = true
	if fault == "ok-no-message" {
		// The call ends with OK and without a response message: the client
		// sees its stream end, and the batch is delivered all the same.
		b.s.Fault("backend-ok-without-message")

		return nil
	}

	return stream.SendAndClose(&emptypb.Empty{})
}

// startBackend starts the gRPC server on the simulated network.
func startBackend(s *kernel.Sim, n *simnet.Net) (b *backend, stop func()) {
	l, err := n.Listen(context.Background(), "tcp", backendAddr)
	if err != nil {
		panic(err)
	}
	b = &backend{s: s}
	// Fixed flow-control windows (no bandwidth estimation): what a client can
	// send ahead of the handler is bounded by them, whatever the timing.
	srv := grpc.NewServer(grpc.InitialWindowSize(65535), grpc.InitialConnWindowSize(65535))
	backendpb.RegisterDNSServiceServer(srv, b)
	go func() { _ = srv.Serve(l) }()

	return b, srv.Stop
}

func endpoint() *url.URL { return &url.URL{Scheme: "grpc", Host: backendAddr} }

var (
	ctries = []geoip.Country{geoip.CountryNone, "US", "DE", "JP"}
	protos = []agd.Protocol{agd.ProtoDNS, agd.ProtoDoH, agd.ProtoDoQ, agd.ProtoDoT, agd.ProtoDNSCrypt}
)

// runC16 drives the real recorder with the real gRPC uploader against the
// simulated backend: records and refreshes in a tape-chosen order, a
// tape-chosen backend fault per upload.
func runC16(s *kernel.Sim, cfg string) {
	t := s.T
	n := simnet.New(s)
	s.Dial = func(_, addr string, _ time.Duration) (net.Conn, error) {
		return n.Dial(addr, n.ClientAddr(clientIP))
	}
	b, stop := startBackend(s, n)
	defer stop()

	ec := &nopErrColl{}
	up, err := backendpb.NewBillStat(&backendpb.BillStatConfig{
		Logger:      slog.New(slog.DiscardHandler),
		GRPCMetrics: backendpb.EmptyGRPCMetrics{},
		ErrColl:     ec,
		Endpoint:    endpoint(),
	})
	if err != nil {
		panic(err)
	}

	rec := billstat.NewRuntimeRecorder(&billstat.RuntimeRecorderConfig{
		Logger:   slog.New(slog.DiscardHandler),
		ErrColl:  ec,
		Uploader: up,
		Metrics:  billstat.EmptyMetrics{},
	})

	nDev := t.Range(1, 5, "devices")
	recorded := map[string]int{}
	last := map[string]*lastQuery{}
	delivered := map[string]int{}
	base := time.Date(2000, 1, 1, 0, 0, 0, 0, time.UTC)
	ctx := context.Background()
	faults := cfg != "nofault"

	bulk := cfg == "bulk"
	forceEarly := false
	refresh := func(final bool) {
		b.billFault = ""
		if faults && !final && t.Chance(1, 2, "upload-fault") {
			b.billFault = kernel.Pick(t, []string{"before", "middle", "end", "deadline"}, "fault-kind")
			b.billAt = t.Range(1, 3, "fault-at")
		}
		if b.billFault == "" && t.Chance(1, 4, "ok-without-message") {
			b.billFault = "ok-no-message"
		}
		if forceEarly {
			b.billFault, b.billAt = "ok-early", t.Range(1, 3, "fault-at")
		}
		fault := b.billFault
		calls := len(b.billCalls)
		rctx, cancel := context.WithTimeout(ctx, 10*time.Second)
		rerr := rec.Refresh(rctx)
		cancel()
		var call *billCall
		if len(b.billCalls) > calls {
			call = b.billCalls[len(b.billCalls)-1]
		}
		// The error's text depends on where gRPC's goroutines notice the
		// failure (on a send or on the final receive): kept out of the trace.
		s.Logf("refresh (backend fault %q): failed=%v backend saw call=%v", fault, rerr != nil, call != nil)
		if rerr != nil {
			if call != nil && call.committed && !call.early {
				// (No message is lost on this network: the client has seen
				// the call end with OK.)
				s.Failf("C16/conservation", "an upload the backend accepted in full was reported as failed: the batch is kept and will be delivered again",
					"backend behaviour %q, the backend took all %d records and ended the call with OK, Refresh returned %v", fault, len(call.got), rerr)
			}

			return
		}
		if call == nil {
			// Nothing was pending.
			return
		}
		if call.early {
			// Only injected when the batch is far larger than the transport
			// lets a client send ahead: the client has seen its stream end
			// with records unsent.
			s.Failf("C16/lost", "an upload whose stream the backend ended before all records were sent was treated as delivered",
				"the backend replied after %d records, Refresh returned nil", len(call.got))

			return
		}
		if !call.committed {
			s.Failf("C16/lost", "an upload the backend did not accept was treated as delivered",
				"backend fault %q, the backend received %d records and reported a failure, Refresh returned nil", fault, len(call.got))

			return
		}
		for _, r := range call.got {
			delivered[r.DeviceId] += int(r.Queries)
			l := last[r.DeviceId]
			if l == nil {
				s.Failf("C16/conservation", "queries double-counted (gRPC uploader)", "device %s was never recorded", r.DeviceId)

				return
			}
			if !r.LastActivityTime.AsTime().Equal(l.t) || r.ClientCountry != l.ctry || r.Asn != l.asn || r.Proto != l.proto {
				s.Failf("C16/metadata", "delivered metadata is not of the device's most recent query (gRPC uploader)",
					"device %s: delivered time %v country %q asn %d proto %d; most recent query: %v %q %d %d",
					r.DeviceId, r.LastActivityTime.AsTime(), r.ClientCountry, r.Asn, r.Proto, l.t, l.ctry, l.asn, l.proto)

				return
			}
		}
	}

	if bulk {
		// A batch several times larger than the flow-control windows and the
		// client's write buffer together (about 45 octets per record against
		// 64 KiB each), then an upload the backend answers early.
		nBulk := t.Range(8000, 10000, "bulk-devices")
		q := &lastQuery{t: base.Add(time.Second), ctry: "US", asn: 1, proto: uint32(agd.ProtoDNS)}
		for i := 0; i < nBulk; i++ {
			dev := fmt.Sprintf("bulk%05d", i)
			rec.Record(ctx, agd.DeviceID(dev), geoip.Country(q.ctry), geoip.ASN(q.asn), q.t, agd.Protocol(q.proto))
			recorded[dev]++
			last[dev] = q
		}
		s.Logf("recorded %d devices once", nBulk)
		forceEarly = true
		refresh(false)
		forceEarly = false
		s.Probe("bulk-upload-answered-early")
	}

	nOps := t.Range(3, 30, "ops")
	for i := 0; i < nOps && s.Failed() == nil; i++ {
		if t.Chance(1, 4, "refresh") {
			refresh(false)

			continue
		}
		dev := fmt.Sprintf("dev%d", t.Choose(nDev, "device"))
		q := &lastQuery{
			t:     base.Add(time.Duration(i+1) * time.Second),
			ctry:  string(kernel.Pick(t, ctries, "country")),
			asn:   uint32(t.Range(0, 3, "asn")),
			proto: uint32(kernel.Pick(t, protos, "proto")),
		}
		rec.Record(ctx, agd.DeviceID(dev), geoip.Country(q.ctry), geoip.ASN(q.asn), q.t, agd.Protocol(q.proto))
		recorded[dev]++
		last[dev] = q
		s.Logf("record %s %q asn=%d proto=%d t=+%ds", dev, q.ctry, q.asn, q.proto, i+1)
	}
	if s.Failed() != nil {
		return
	}

	// Faults off: one more refresh delivers everything still held.
	refresh(true)
	if s.Failed() != nil {
		return
	}

	devs := make([]string, 0, len(recorded))
	for d := range recorded {
		devs = append(devs, d)
	}
	sort.Strings(devs)
	for _, d := range devs {
		if delivered[d] != recorded[d] {
			kind := "lost"
			if delivered[d] > recorded[d] {
				kind = "double-counted"
			}
			s.Failf("C16/conservation", "queries "+kind+" (gRPC uploader)",
				"device %s: recorded %d queries, %d delivered in successful uploads after the final flush", d, recorded[d], delivered[d])

			return
		}
	}
	for d, k := range delivered {
		if recorded[d] == 0 && k > 0 {
			s.Failf("C16/conservation", "queries double-counted (gRPC uploader)", "device %s: %d delivered, none recorded", d, k)

			return
		}
	}
	s.MarkNontrivial()
}

type lastQuery struct {
	t     time.Time
	ctry  string
	asn   uint32
	proto uint32
}

var clientIP = netip.MustParseAddr("203.0.113.50")

func run(s *kernel.Sim, prop, cfg string) {
	switch prop {
	case "C16":
		runC16(s, cfg)
	case "C14":
		runC14(s, cfg)
	default:
		panic("bpbsim: unknown property " + prop)
	}
}

func TestWorker(t *testing.T) {
	kernel.WorkerMain(t, &kernel.Engine{Name: "bpbsim", Run: run})
}
