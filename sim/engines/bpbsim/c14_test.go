package bpbsim

import "github.com/AdguardTeam/AdGuardDNS/verif/kernel"

type profBackend struct{}

func runC14(s *kernel.Sim, cfg string) { panic("not yet") }
