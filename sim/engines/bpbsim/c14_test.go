package bpbsim

import (
	"context"
	"errors"
	"fmt"
	"log/slog"
	"net"
	"net/netip"
	"sort"
	"strconv"
	"strings"
	"time"

	"github.com/AdguardTeam/AdGuardDNS/internal/agd"
	"github.com/AdguardTeam/AdGuardDNS/internal/backendpb"
	"github.com/AdguardTeam/AdGuardDNS/internal/dnsmsg"
	"github.com/AdguardTeam/AdGuardDNS/internal/profiledb"
	"github.com/AdguardTeam/AdGuardDNS/verif/kernel"
	"github.com/AdguardTeam/AdGuardDNS/verif/simnet"
	"github.com/AdguardTeam/golibs/netutil"
	"google.golang.org/grpc"
	"google.golang.org/grpc/codes"
	"google.golang.org/grpc/metadata"
	"google.golang.org/grpc/status"
	"google.golang.org/protobuf/types/known/durationpb"
)

// C14, backend part: the real profile database fed by the real gRPC profile
// storage from a simulated backend.  The backend holds profiles and devices
// in the form of the service's protobuf messages and changes them between
// synchronisations; some profiles and devices are such that the client must
// reject them.  The reference is the content of the successful
// synchronisations, applied as the statement says.

// bDev is a device as the backend has it.
type bDev struct {
	id        string
	name      string
	linked    netip.Addr
	dedicated []netip.Addr
	human     string
	authOn    bool
	dohOnly   bool
	hash      bool
	filtering bool
}

// bProf is a profile as the backend has it.
type bProf struct {
	id      string
	deleted bool
	devs    []*bDev
	mod     int64
	autoDev bool
	qlog    bool

	// seed decides the remaining settings (see settings()).
	seed int

	// badMode gives the profile a custom-IP blocking mode without addresses,
	// which the client must reject (the whole profile).
	badMode bool
}

type profBackend struct {
	profs []*bProf
	clock int64

	// fault of the next profiles call: "", "before", "middle", "deadline",
	// "no-trailer".
	fault   string
	faultAt int

	// lastReq / lastSent describe the last call.
	lastFull bool
	lastSent []*bProf
	called   bool
}

var (
	bindPrefix   = netip.MustParsePrefix("198.18.10.0/24")
	linkedPool   = []string{"10.1.0.1", "10.1.0.2", "10.1.0.3", "2001:db8:7::1"}
	dedicatedIn  = []string{"198.18.10.11", "198.18.10.12"}
	dedicatedOut = "192.0.2.99" // not an address of any server: the device must be rejected
	humanPool    = []string{"alpha", "beta"}
	baseMS       = time.Date(2000, 1, 1, 0, 0, 0, 0, time.UTC).UnixMilli()
)

func (d *bDev) valid() bool {
	if _, err := agd.NewDeviceID(d.id); err != nil {
		return false
	}
	for _, ip := range d.dedicated {
		if !bindPrefix.Contains(ip) {
			return false
		}
	}

	return true
}

func (d *bDev) proto() (p *backendpb.DeviceSettings) {
	p = &backendpb.DeviceSettings{
		Id:               d.id,
		Name:             d.name,
		HumanIdLower:     d.human,
		FilteringEnabled: d.filtering,
	}
	if d.linked.IsValid() {
		p.LinkedIp, _ = d.linked.MarshalBinary()
	}
	for _, ip := range d.dedicated {
		b, _ := ip.MarshalBinary()
		p.DedicatedIps = append(p.DedicatedIps, b)
	}
	if d.authOn {
		p.Authentication = &backendpb.AuthenticationSettings{DohAuthOnly: d.dohOnly}
		if d.hash {
			p.Authentication.DohPasswordHash = &backendpb.AuthenticationSettings_PasswordHashBcrypt{
				PasswordHashBcrypt: []byte("$2a$04$abcdefghijklmnopqrstuu7Qq3q3q3q3q3q3q3q3q3q3q3q3q3q3q"),
			}
		}
	}

	return p
}

func (p *bProf) proto() (x *backendpb.DNSProfile) {
	sd := p.seed
	x = &backendpb.DNSProfile{
		DnsId:               p.id,
		Deleted:             p.deleted,
		FilteringEnabled:    sd&1 != 0,
		QueryLogEnabled:     p.qlog,
		IpLogEnabled:        sd&2 != 0,
		AutoDevicesEnabled:  p.autoDev,
		BlockPrivateRelay:   sd&4 != 0,
		BlockFirefoxCanary:  sd&8 != 0,
		BlockChromePrefetch: sd&16 != 0,
		FilteredResponseTtl: durationpb.New(time.Duration(sd%7) * 10 * time.Second),
		SafeBrowsing:        &backendpb.SafeBrowsingSettings{Enabled: sd&32 != 0, BlockDangerousDomains: sd&64 != 0, BlockNrd: sd&128 != 0},
		Parental: &backendpb.ParentalSettings{
			Enabled: sd&256 != 0, BlockAdult: sd&512 != 0, GeneralSafeSearch: sd&1024 != 0, YoutubeSafeSearch: sd&2048 != 0,
			BlockedServices: []string{"svc_a", fmt.Sprintf("svc_%d", sd%5)},
		},
		RuleLists:   &backendpb.RuleListsSettings{Enabled: sd&4096 != 0, Ids: []string{"list_a", fmt.Sprintf("list_%d", sd%3)}},
		CustomRules: []string{fmt.Sprintf("||custom%d.test^", sd%4)},
	}
	if sd%3 == 1 {
		x.RateLimit = &backendpb.RateLimitSettings{Enabled: true, Rps: uint32(1 + sd%40), ClientCidr: []*backendpb.CidrRange{{Address: []byte{5, 5, 5, 0}, Prefix: 24}}}
	}
	if sd%4 == 2 {
		x.Access = &backendpb.AccessSettings{
			Enabled:              true,
			BlocklistCidr:        []*backendpb.CidrRange{{Address: []byte{2, 2, 0, 0}, Prefix: 16}},
			AllowlistAsn:         []uint32{uint32(sd % 1000)},
			BlocklistDomainRules: []string{"block.test"},
		}
	}
	for _, d := range p.devs {
		x.Devices = append(x.Devices, d.proto())
	}
	switch {
	case p.badMode:
		x.BlockingMode = &backendpb.DNSProfile_BlockingModeCustomIp{BlockingModeCustomIp: &backendpb.BlockingModeCustomIP{}}
	case sd%5 == 0:
		x.BlockingMode = &backendpb.DNSProfile_BlockingModeNxdomain{BlockingModeNxdomain: &backendpb.BlockingModeNXDOMAIN{}}
	case sd%5 == 1:
		x.BlockingMode = &backendpb.DNSProfile_BlockingModeRefused{BlockingModeRefused: &backendpb.BlockingModeREFUSED{}}
	case sd%5 == 2:
		x.BlockingMode = &backendpb.DNSProfile_BlockingModeCustomIp{BlockingModeCustomIp: &backendpb.BlockingModeCustomIP{Ipv4: []byte{203, 0, 113, byte(sd)}}}
	case sd%5 == 3:
		x.BlockingMode = &backendpb.DNSProfile_BlockingModeNullIp{BlockingModeNullIp: &backendpb.BlockingModeNullIP{}}
	}

	return x
}

// settings describes, from the backend's data, what the database must hold
// for the profile after a successful synchronisation.
func (p *bProf) settings() string {
	sd := p.seed
	mode := []string{"nxdomain", "refused", fmt.Sprintf("custom[203.0.113.%d]", byte(sd)), "null", "null"}[sd%5]
	rl := "global"
	if sd%3 == 1 {
		rl = fmt.Sprintf("rps=%d nets=[5.5.5.0/24]", 1+sd%40)
	}
	acc := "none"
	if sd%4 == 2 {
		acc = fmt.Sprintf("blocked=[2.2.0.0/16] allowed-asn=[%d] rules=[block.test]", sd%1000)
	}

	return fmt.Sprintf("flt=%v qlog=%v iplog=%v auto=%v relay=%v canary=%v prefetch=%v ttl=%v sb=%v/%v/%v par=%v/%v/%v/%v svcs=[svc_a svc_%d] lists=%v[list_a list_%d] custom=[||custom%d.test^] mode=%s rl=%s access=%s",
		sd&1 != 0, p.qlog, sd&2 != 0, p.autoDev, sd&4 != 0, sd&8 != 0, sd&16 != 0, time.Duration(sd%7)*10*time.Second,
		sd&32 != 0, sd&64 != 0, sd&128 != 0, sd&256 != 0, sd&512 != 0, sd&1024 != 0, sd&2048 != 0, sd%5,
		sd&4096 != 0, sd%3, sd%4, mode, rl, acc)
}

// describeProfile renders the same settings from what the database returned.
func describeProfile(p *agd.Profile) string {
	mode := "?"
	switch m := p.BlockingMode.(type) {
	case *dnsmsg.BlockingModeNXDOMAIN:
		mode = "nxdomain"
	case *dnsmsg.BlockingModeREFUSED:
		mode = "refused"
	case *dnsmsg.BlockingModeNullIP:
		mode = "null"
	case *dnsmsg.BlockingModeCustomIP:
		mode = fmt.Sprintf("custom%v", m.IPv4)
	}
	rl := "global"
	if c := p.Ratelimiter.Config(); c.Enabled {
		rl = fmt.Sprintf("rps=%d nets=%v", c.RPS, c.ClientSubnets)
	}
	acc := "none"
	if c := p.Access.Config(); c != nil {
		acc = fmt.Sprintf("blocked=%v allowed-asn=%v rules=%v", c.BlockedNets, c.AllowedASN, c.BlocklistDomainRules)
	}
	fc := p.FilterConfig
	var svcs, lists, custom []string
	for _, x := range fc.Parental.BlockedServices {
		svcs = append(svcs, string(x))
	}
	for _, x := range fc.RuleList.IDs {
		lists = append(lists, string(x))
	}
	for _, x := range fc.Custom.Rules {
		custom = append(custom, string(x))
	}

	return fmt.Sprintf("flt=%v qlog=%v iplog=%v auto=%v relay=%v canary=%v prefetch=%v ttl=%v sb=%v/%v/%v par=%v/%v/%v/%v svcs=%v lists=%v%v custom=%v mode=%s rl=%s access=%s",
		p.FilteringEnabled, p.QueryLogEnabled, p.IPLogEnabled, p.AutoDevicesEnabled, p.BlockPrivateRelay, p.BlockFirefoxCanary,
		p.BlockChromePrefetch, p.FilteredResponseTTL, fc.SafeBrowsing.Enabled, fc.SafeBrowsing.DangerousDomainsEnabled,
		fc.SafeBrowsing.NewlyRegisteredDomainsEnabled, fc.Parental.Enabled, fc.Parental.AdultBlockingEnabled,
		fc.Parental.SafeSearchGeneralEnabled, fc.Parental.SafeSearchYouTubeEnabled, svcs, fc.RuleList.Enabled, lists, custom, mode, rl, acc)
}

// GetDNSProfiles implements the profile stream of the backend.
func (b *backend) GetDNSProfiles(req *backendpb.DNSProfilesRequest, stream grpc.ServerStreamingServer[backendpb.DNSProfile]) error {
	pb := b.prof
	pb.called = true
	fault, at := pb.fault, pb.faultAt
	pb.fault = ""

	if fault == "before" {
		b.s.Fault("backend-error-before-stream")

		return status.Error(codes.Unavailable, "sim backend: unavailable")
	}

	full := req.SyncTime == nil || req.SyncTime.AsTime().IsZero()
	since := int64(0)
	if !full {
		since = req.SyncTime.AsTime().UnixMilli() - baseMS
	}
	pb.lastFull = full
	pb.lastSent = nil
	for _, p := range pb.profs {
		if full && p.deleted {
			continue
		}
		if full || p.mod > since {
			pb.lastSent = append(pb.lastSent, p)
		}
	}

	for i, p := range pb.lastSent {
		if fault == "middle" && i >= at {
			b.s.Fault("backend-error-mid-stream")

			return status.Error(codes.Internal, "sim backend: storage failure")
		}
		if err := stream.Send(p.proto()); err != nil {
			return err
		}
	}

	switch fault {
	case "middle":
		// Fewer profiles than the fault position: fail at the end.
		b.s.Fault("backend-error-mid-stream")

		return status.Error(codes.Internal, "sim backend: storage failure")
	case "deadline":
		b.s.Fault("backend-deadline-exceeded")

		return status.Error(codes.DeadlineExceeded, "sim backend: deadline exceeded")
	case "no-trailer":
		b.s.Fault("backend-no-sync-time")

		return nil
	}

	pb.clock++
	stream.SetTrailer(metadata.Pairs("sync_time", strconv.FormatInt(baseMS+pb.clock, 10)))

	return nil
}

// ---- the reference ----

type mProf struct {
	deleted  bool
	devs     []string
	settings string
}

type mDev struct {
	linked    netip.Addr
	dedicated []netip.Addr
	human     string
}

type dbModel struct {
	profs map[string]*mProf
	devs  map[string]*mDev
}

func (m *dbModel) apply(full bool, sent []*bProf) {
	if full {
		m.profs, m.devs = map[string]*mProf{}, map[string]*mDev{}
	}
	for _, p := range sent {
		if p.badMode {
			// Rejected as a whole: what the database had stays.
			continue
		}
		mp := &mProf{deleted: p.deleted, settings: p.settings()}
		for _, d := range p.devs {
			if !d.valid() {
				continue
			}
			mp.devs = append(mp.devs, d.id)
			m.devs[d.id] = &mDev{linked: d.linked, dedicated: append([]netip.Addr(nil), d.dedicated...), human: d.human}
		}
		m.profs[p.id] = mp
	}
}

// owners returns the profiles that currently list the device.
func (m *dbModel) owners(dev string) (ps []string) {
	for id, p := range m.profs {
		for _, d := range p.devs {
			if d == dev {
				ps = append(ps, id)
			}
		}
	}
	sort.Strings(ps)

	return ps
}

// expect returns what a lookup must find: the profile and device, "" for
// not found; ok is false when the reference itself is ambiguous (a rejected
// profile kept an old list that overlaps a newer one).
func (m *dbModel) expect(kind, arg, prof string) (wantProf, wantDev string, ok bool) {
	var cands []string
	for id, d := range m.devs {
		switch kind {
		case "id":
			if id == arg {
				cands = append(cands, id)
			}
		case "linked":
			if d.linked.IsValid() && d.linked.String() == arg {
				cands = append(cands, id)
			}
		case "dedicated":
			for _, ip := range d.dedicated {
				if ip.String() == arg {
					cands = append(cands, id)
				}
			}
		case "human":
			if d.human != "" && d.human == arg {
				cands = append(cands, id)
			}
		}
	}
	sort.Strings(cands)

	type hit struct{ p, d string }
	var hits []hit
	for _, c := range cands {
		os := m.owners(c)
		if len(os) > 1 {
			return "", "", false
		}
		if len(os) == 1 && (kind != "human" || os[0] == prof) {
			hits = append(hits, hit{os[0], c})
		}
	}
	switch len(hits) {
	case 0:
		return "", "", true
	case 1:
		return hits[0].p, hits[0].d, true
	}

	return "", "", false
}

func runC14(s *kernel.Sim, _ string) {
	t := s.T
	n := simnet.New(s)
	s.Dial = func(_, addr string, _ time.Duration) (net.Conn, error) {
		return n.Dial(addr, n.ClientAddr(clientIP))
	}
	b, stop := startBackend(s, n)
	defer stop()
	pb := &profBackend{}
	b.prof = pb

	// ---- the backend's initial content ----
	nProf := t.Range(1, 4, "profiles")
	devN := 0
	newDev := func(owner *bProf) *bDev {
		d := &bDev{id: fmt.Sprintf("dev%d", devN), name: fmt.Sprintf("Device %d", devN), filtering: true}
		devN++
		mutateDev(t, pb, owner, d)

		return d
	}
	for i := 0; i < nProf; i++ {
		p := &bProf{id: fmt.Sprintf("prof%d", i), mod: 1, autoDev: t.Chance(1, 2, "auto-devices"), qlog: t.Chance(1, 2, "qlog"),
			badMode: t.Chance(1, 5, "bad-mode"), seed: t.Choose(1<<13, "settings")}
		pb.profs = append(pb.profs, p)
		for j, k := 0, t.Range(0, 3, "devices"); j < k; j++ {
			p.devs = append(p.devs, newDev(p))
		}
	}
	pb.clock = 1

	ec := &nopErrColl{}
	st, err := backendpb.NewProfileStorage(&backendpb.ProfileStorageConfig{
		BindSet:              netutil.SliceSubnetSet{bindPrefix},
		ErrColl:              ec,
		Logger:               slog.New(slog.DiscardHandler),
		GRPCMetrics:          backendpb.EmptyGRPCMetrics{},
		Metrics:              backendpb.EmptyProfileDBMetrics{},
		Endpoint:             endpoint(),
		ResponseSizeEstimate: 1000,
		MaxProfilesSize:      1 << 20,
	})
	if err != nil {
		panic(err)
	}

	const fullIvl = time.Hour
	db, err := profiledb.New(&profiledb.Config{
		Logger:           slog.New(slog.DiscardHandler),
		Storage:          st,
		ErrColl:          ec,
		Metrics:          profiledb.EmptyMetrics{},
		CacheFilePath:    "none",
		FullSyncIvl:      fullIvl,
		FullSyncRetryIvl: time.Minute,
	})
	if err != nil {
		panic(err)
	}

	m := &dbModel{profs: map[string]*mProf{}, devs: map[string]*mDev{}}
	ctx := context.Background()
	synced := false

	sync := func(withFaults bool) {
		pb.fault = ""
		if withFaults && t.Chance(1, 4, "sync-fault") {
			pb.fault = kernel.Pick(t, []string{"before", "middle", "deadline", "no-trailer"}, "fault-kind")
			pb.faultAt = t.Range(0, 2, "fault-at")
		}
		fault := pb.fault
		pb.called = false
		rctx, cancel := context.WithTimeout(ctx, 30*time.Second)
		rerr := db.Refresh(rctx)
		cancel()
		var desc []string
		for _, p := range pb.lastSent {
			ds := []string{}
			for _, d := range p.devs {
				ds = append(ds, fmt.Sprintf("%s(l=%v d=%v h=%q valid=%v)", d.id, d.linked, d.dedicated, d.human, d.valid()))
			}
			desc = append(desc, fmt.Sprintf("%s{del=%v bad=%v %s}", p.id, p.deleted, p.badMode, strings.Join(ds, " ")))
		}
		s.Logf("sync: fault=%q called=%v full=%v failed=%v sent=%v", fault, pb.called, pb.lastFull, rerr != nil, desc)
		if rerr != nil {
			if fault == "" {
				s.Failf("C14/sync-failed", "synchronisation failed without a backend fault", "%v", rerr)
			}

			return
		}
		if fault != "" {
			s.Failf("C14/faulty-sync-accepted", "a synchronisation the backend did not complete was applied as successful",
				"backend fault %q (full=%v, %d profiles on the stream): Refresh returned nil", fault, pb.lastFull, len(pb.lastSent))

			return
		}
		m.apply(pb.lastFull, pb.lastSent)
		synced = true
		if pb.lastFull {
			s.Probe("full-sync")
		} else {
			s.Probe("incremental-sync")
		}
	}

	touch := func(p *bProf) {
		pb.clock++
		p.mod = pb.clock
	}

	lookup := func() {
		kind := kernel.Pick(t, []string{"id", "id", "linked", "dedicated", "human"}, "lookup-kind")
		var arg, prof string
		var gp *agd.Profile
		var gd *agd.Device
		var lerr error
		switch kind {
		case "id":
			arg = fmt.Sprintf("dev%d", t.Choose(devN+1, "which-device"))
			gp, gd, lerr = db.ProfileByDeviceID(ctx, agd.DeviceID(arg))
		case "linked":
			arg = kernel.Pick(t, linkedPool, "which-linked")
			gp, gd, lerr = db.ProfileByLinkedIP(ctx, netip.MustParseAddr(arg))
		case "dedicated":
			arg = kernel.Pick(t, dedicatedIn, "which-dedicated")
			gp, gd, lerr = db.ProfileByDedicatedIP(ctx, netip.MustParseAddr(arg))
		case "human":
			arg = kernel.Pick(t, humanPool, "which-human")
			prof = fmt.Sprintf("prof%d", t.Choose(nProf, "which-profile"))
			gp, gd, lerr = db.ProfileByHumanID(ctx, agd.ProfileID(prof), agd.HumanIDLower(arg))
		}
		if lerr != nil && !errors.Is(lerr, profiledb.ErrDeviceNotFound) && !errors.Is(lerr, profiledb.ErrProfileNotFound) {
			s.Failf("C14/lookup-error", "lookup returned an unexpected error", "%s %s: %v", kind, arg, lerr)

			return
		}
		gotP, gotD := "", ""
		if lerr == nil {
			gotP, gotD = string(gp.ID), string(gd.ID)
		}
		wantP, wantD, ok := m.expect(kind, arg, prof)
		s.Logf("lookup %s %s %s -> %s/%s (reference %s/%s judged=%v)", kind, prof, arg, gotP, gotD, wantP, wantD, ok)
		if !ok {
			s.Probe("reference-ambiguous-not-judged")

			return
		}
		if gotP != wantP || gotD != wantD {
			s.Failf("C14/backend-lookup", "lookup does not reflect the latest synchronised backend data",
				"by %s %s %s: database says %q/%q, the synchronised data say %q/%q", kind, prof, arg, gotP, gotD, wantP, wantD)

			return
		}
		if lerr == nil {
			if gp.Deleted != m.profs[wantP].deleted {
				s.Failf("C14/backend-lookup", "deleted flag of the profile does not reflect the latest synchronised data",
					"profile %s: deleted=%v, backend said %v", wantP, gp.Deleted, m.profs[wantP].deleted)

				return
			}
			if got, want := describeProfile(gp), m.profs[wantP].settings; got != want {
				s.Failf("C14/backend-settings", "profile settings in the database differ from the latest synchronised backend data",
					"profile %s:\n database %s\n backend  %s", wantP, got, want)

				return
			}
			s.MarkNontrivial()
		}
	}

	nOps := t.Range(4, 40, "ops")
	for i := 0; i < nOps && s.Failed() == nil; i++ {
		// Let the database's background clean-ups finish.
		time.Sleep(time.Millisecond)
		switch op := t.Choose(10, "op"); {
		case !synced || op == 0 || op == 1:
			if t.Chance(1, 4, "long-gap") {
				// Time for a full synchronisation.
				time.Sleep(fullIvl + time.Second)
			} else if t.Chance(1, 3, "retry-gap") {
				time.Sleep(time.Minute + time.Second)
			}
			sync(true)
		case op == 2:
			// A device changes its settings.
			p := kernel.Pick(t, pb.profs, "profile")
			if len(p.devs) > 0 {
				d := kernel.Pick(t, p.devs, "device")
				mutateDev(t, pb, p, d)
				touch(p)
				s.Logf("backend: %s/%s now linked=%v dedicated=%v human=%q", p.id, d.id, d.linked, d.dedicated, d.human)
			}
		case op == 3:
			// A device moves to another profile.
			from, to := kernel.Pick(t, pb.profs, "from"), kernel.Pick(t, pb.profs, "to")
			if from != to && len(from.devs) > 0 {
				k := t.Choose(len(from.devs), "device")
				d := from.devs[k]
				from.devs = append(from.devs[:k:k], from.devs[k+1:]...)
				to.devs = append(to.devs, d)
				touch(from)
				touch(to)
				s.Logf("backend: %s moves %s -> %s", d.id, from.id, to.id)
			}
		case op == 4:
			p := kernel.Pick(t, pb.profs, "profile")
			if len(p.devs) < 4 {
				d := newDev(p)
				if t.Chance(1, 6, "bad-device-id") {
					d.id = "bad id!"
				}
				p.devs = append(p.devs, d)
				touch(p)
				s.Logf("backend: new device %s in %s", d.id, p.id)
			}
		case op == 5:
			p := kernel.Pick(t, pb.profs, "profile")
			if len(p.devs) > 0 {
				k := t.Choose(len(p.devs), "device")
				s.Logf("backend: device %s removed from %s", p.devs[k].id, p.id)
				p.devs = append(p.devs[:k:k], p.devs[k+1:]...)
				touch(p)
			}
		case op == 6 && t.Chance(1, 2, "settings-change"):
			p := kernel.Pick(t, pb.profs, "profile")
			p.seed = t.Choose(1<<13, "settings")
			touch(p)
			s.Logf("backend: %s settings now %s", p.id, p.settings())
		case op == 6:
			p := kernel.Pick(t, pb.profs, "profile")
			p.deleted = !p.deleted
			touch(p)
			s.Logf("backend: %s deleted=%v", p.id, p.deleted)
		case op == 7 && t.Chance(1, 2, "repair-mode"):
			// A profile the client has had to reject so far is repaired.  (The
			// other direction would leave the database with the last accepted
			// state of the profile next to newer states of others, for which
			// the statement defines nothing.)
			p := kernel.Pick(t, pb.profs, "profile")
			if p.badMode {
				p.badMode = false
				touch(p)
				s.Logf("backend: %s gets a usable blocking mode", p.id)
			}
		default:
			lookup()
		}
	}
	if s.Failed() != nil {
		return
	}

	// Faults off: one synchronisation, then every key is looked up.
	time.Sleep(time.Minute + time.Second)
	sync(false)
	for i := 0; i < 12 && s.Failed() == nil; i++ {
		time.Sleep(time.Millisecond)
		lookup()
	}
}

// mutateDev gives the device tape-chosen settings.  A linked address, a
// dedicated address and a human-readable ID within a profile have one owner
// in the backend: a device that takes one over takes it away from the device
// that had it (whose profile counts as changed).
func mutateDev(t *kernel.Tape, pb *profBackend, owner *bProf, d *bDev) {
	d.linked = netip.Addr{}
	if t.Chance(1, 2, "has-linked") {
		d.linked = netip.MustParseAddr(kernel.Pick(t, linkedPool, "linked"))
	}
	d.dedicated = nil
	if t.Chance(1, 3, "has-dedicated") {
		d.dedicated = append(d.dedicated, netip.MustParseAddr(kernel.Pick(t, dedicatedIn, "dedicated")))
		if t.Chance(1, 6, "dedicated-outside") {
			d.dedicated = append(d.dedicated, netip.MustParseAddr(dedicatedOut))
		}
	}
	d.human = ""
	if t.Chance(1, 3, "has-human") {
		d.human = kernel.Pick(t, humanPool, "human")
	}
	d.authOn = t.Chance(1, 3, "auth")
	d.dohOnly = d.authOn && t.Chance(1, 2, "doh-only")
	d.hash = d.authOn && t.Chance(1, 2, "hash")

	for _, p := range pb.profs {
		for _, o := range p.devs {
			if o == d {
				continue
			}
			changed := false
			if d.linked.IsValid() && o.linked == d.linked {
				o.linked, changed = netip.Addr{}, true
			}
			for _, ip := range d.dedicated {
				for k := 0; k < len(o.dedicated); k++ {
					if o.dedicated[k] == ip {
						o.dedicated = append(o.dedicated[:k:k], o.dedicated[k+1:]...)
						k--
						changed = true
					}
				}
			}
			if d.human != "" && o.human == d.human && p == owner {
				o.human, changed = "", true
			}
			if changed {
				pb.clock++
				p.mod = pb.clock
			}
		}
	}
}
