// Package pdbsim simulates the profile database (property C14): real
// profiledb.Default over a simulated backend storage and a real protobuf file
// cache; the syncer, lookup tasks and the database's own background clean-up
// goroutines are interleaved by the kernel's scheduler; crash images of the
// cache directory are taken while a store is in progress.
package pdbsim

import (
	"context"
	"errors"
	"fmt"
	"log/slog"
	"net/netip"
	"os"
	"os/signal"
	"path/filepath"
	"sort"
	"strings"
	"sync"
	"syscall"
	"testing"
	"time"

	"github.com/AdguardTeam/AdGuardDNS/internal/access"
	"github.com/AdguardTeam/AdGuardDNS/internal/agd"
	"github.com/AdguardTeam/AdGuardDNS/internal/agdpasswd"
	"github.com/AdguardTeam/AdGuardDNS/internal/agdtime"
	"github.com/AdguardTeam/AdGuardDNS/internal/dnsmsg"
	"github.com/AdguardTeam/AdGuardDNS/internal/filter"
	"github.com/AdguardTeam/AdGuardDNS/internal/geoip"
	"github.com/AdguardTeam/AdGuardDNS/internal/profiledb"
	"github.com/AdguardTeam/AdGuardDNS/verif/kernel"
	"github.com/AdguardTeam/AdGuardDNS/verif/model"
	"github.com/c2h5oh/datasize"
	"github.com/miekg/dns"
)

const respSzEst = 1 * datasize.KB

type nopErrColl struct{}

func (nopErrColl) Collect(context.Context, error) {}

// ---- backend truth ----

type tDev struct {
	id     agd.DeviceID
	linked netip.Addr
	ded    []netip.Addr
	human  string
	seed   int
}

type tProf struct {
	id      agd.ProfileID
	deleted bool
	devs    []*tDev
	seed    int
	mod     int64
}

type backend struct {
	w     *world
	clock int64
	profs []*tProf
	nDev  int

	// ops are the mutation kinds enabled in this run and nLinked, nDed,
	// nHuman the pool sizes (swarm testing: each run concentrates on a
	// random subset of behaviours and a small key space).
	ops                   []int
	nLinked, nDed, nHuman int

	// The device and address of the last dedicated / linked address change.
	lastDipDev, lastLipDev agd.DeviceID
	lastDip, lastLip       netip.Addr

	// hot are keys touched by recent mutations: lookups prefer them, because
	// stale and re-assigned keys are where the database can go wrong.
	hot []key
}

func (b *backend) touch(d *tDev, p *tProf) {
	b.hot = append(b.hot, key{kind: "dev", dev: d.id})
	if d.linked.IsValid() {
		b.hot = append(b.hot, key{kind: "lip", ip: d.linked})
	}
	for _, ip := range d.ded {
		b.hot = append(b.hot, key{kind: "dip", ip: ip})
	}
	if d.human != "" && p != nil {
		b.hot = append(b.hot, key{kind: "hid", prof: p.id, human: agd.HumanIDLower(d.human)})
	}
	if len(b.hot) > 12 {
		b.hot = b.hot[len(b.hot)-12:]
	}
}

var (
	linkedPool = mustAddrs("10.0.0.1", "10.0.0.2", "10.0.0.3", "2001:db8::1")
	dedPool    = mustAddrs("192.0.2.1", "192.0.2.2", "192.0.2.3", "2001:db8:1::1")
	humanPool  = []string{"alpha", "beta", "gamma"}
	locNames   = []string{"UTC", "Europe/Brussels", "Asia/Tokyo"}
)

func mustAddrs(ss ...string) (as []netip.Addr) {
	for _, s := range ss {
		as = append(as, netip.MustParseAddr(s))
	}

	return as
}

func baseTime() time.Time { return time.Date(2000, 1, 1, 0, 0, 0, 0, time.UTC) }

func (b *backend) stamp(p *tProf) {
	b.clock++
	p.mod = b.clock
}

func (b *backend) live() (ps []*tProf) {
	for _, p := range b.profs {
		if !p.deleted {
			ps = append(ps, p)
		}
	}

	return ps
}

func (b *backend) allDevs() (ds []*tDev, owners []*tProf) {
	for _, p := range b.live() {
		for _, d := range p.devs {
			ds = append(ds, d)
			owners = append(owners, p)
		}
	}

	return ds, owners
}

// mutate applies one tape-chosen change to the backend truth, keeping every
// key owned by at most one current device.
func (b *backend) mutate() {
	t := b.w.s.T
	s := b.w.s
	live := b.live()
	devs, owners := b.allDevs()

	op := kernel.Pick(t, b.ops, "mutation")
	switch {
	case op == 0 || len(live) == 0: // add a device
		if len(live) == 0 {
			for _, p := range b.profs {
				if p.deleted {
					p.deleted = false
					p.seed = t.Choose(1000, "prof-seed")
					b.stamp(p)
					s.Logf("backend: profile %s re-created", p.id)

					return
				}
			}

			return
		}
		if len(devs) >= 8 {
			return
		}
		p := kernel.Pick(t, live, "add-dev-prof")
		b.nDev++
		d := &tDev{id: agd.DeviceID(fmt.Sprintf("dev%d", b.nDev)), seed: t.Choose(1000, "dev-seed")}
		p.devs = append(p.devs, d)
		b.stamp(p)
		s.Logf("backend: device %s added to %s", d.id, p.id)
	case op == 1 && len(devs) > 0: // remove a device
		i := t.Choose(len(devs), "rm-dev")
		p := owners[i]
		b.touch(devs[i], p)
		p.devs = without(p.devs, devs[i])
		b.stamp(p)
		s.Logf("backend: device %s removed from %s", devs[i].id, p.id)
	case op == 2 && len(devs) > 0 && len(live) > 1: // move a device
		i := t.Choose(len(devs), "mv-dev")
		d, from := devs[i], owners[i]
		to := kernel.Pick(t, live, "mv-to")
		if to == from {
			return
		}
		for _, o := range to.devs {
			if d.human != "" && o.human == d.human {
				return
			}
		}
		b.touch(d, from)
		b.touch(d, to)
		from.devs = without(from.devs, d)
		to.devs = append(to.devs, d)
		b.stamp(from)
		b.stamp(to)
		s.Logf("backend: device %s moved %s -> %s", d.id, from.id, to.id)
	case op == 3 && len(devs) > 0: // linked IP: set, take over, swap or clear
		i := t.Choose(len(devs), "lip-dev")
		ip := kernel.Pick(t, append([]netip.Addr{{}}, linkedPool[:b.nLinked]...), "lip")
		if b.lastLipDev != "" && t.Chance(1, 2, "lip-flip-back") {
			// The device that had an address last gets it back, or loses it
			// again.
			for j, o := range devs {
				if o.id == b.lastLipDev {
					i = j
					if o.linked == b.lastLip {
						ip = netip.Addr{}
					} else {
						ip = b.lastLip
					}
				}
			}
		}
		d := devs[i]
		if ip.IsValid() {
			b.lastLipDev, b.lastLip = d.id, ip
		}
		b.touch(d, owners[i])
		if ip.IsValid() {
			b.hot = append(b.hot, key{kind: "lip", ip: ip})
		}
		for j, o := range devs {
			if o != d && ip.IsValid() && o.linked == ip {
				// The previous owner loses it, or swaps.
				if t.Chance(1, 2, "lip-swap") {
					o.linked = d.linked
				} else {
					o.linked = netip.Addr{}
				}
				b.stamp(owners[j])
			}
		}
		d.linked = ip
		b.stamp(owners[i])
		s.Logf("backend: device %s linked ip -> %v", d.id, ip)
	case op == 4 && len(devs) > 0: // dedicated IPs
		i := t.Choose(len(devs), "dip-dev")
		ip := kernel.Pick(t, dedPool[:b.nDed], "dip")
		if b.lastDipDev != "" && t.Chance(1, 2, "dip-flip-back") {
			// The same device and address as last time: an address taken away
			// comes back to the device that had it.
			for j, o := range devs {
				if o.id == b.lastDipDev {
					i, ip = j, b.lastDip
				}
			}
		}
		d := devs[i]
		b.lastDipDev, b.lastDip = d.id, ip
		b.touch(d, owners[i])
		b.hot = append(b.hot, key{kind: "dip", ip: ip})
		if containsAddr(d.ded, ip) {
			d.ded = withoutAddr(d.ded, ip)
		} else {
			for j, o := range devs {
				if o != d && containsAddr(o.ded, ip) {
					o.ded = withoutAddr(o.ded, ip)
					b.stamp(owners[j])
				}
			}
			d.ded = append(d.ded, ip)
		}
		b.stamp(owners[i])
		s.Logf("backend: device %s dedicated ips -> %v", d.id, d.ded)
	case op == 5 && len(devs) > 0: // human ID
		i := t.Choose(len(devs), "hid-dev")
		d := devs[i]
		b.touch(d, owners[i])
		h := kernel.Pick(t, append([]string{""}, humanPool[:b.nHuman]...), "hid")
		if h != "" {
			b.hot = append(b.hot, key{kind: "hid", prof: owners[i].id, human: agd.HumanIDLower(h)})
		}
		for _, o := range owners[i].devs {
			if o != d && h != "" && o.human == h {
				o.human = ""
			}
		}
		d.human = h
		b.stamp(owners[i])
		s.Logf("backend: device %s human id -> %q", d.id, h)
	case op == 6 && len(live) > 0: // delete a profile
		p := kernel.Pick(t, live, "del-prof")
		for _, d := range p.devs {
			b.touch(d, p)
		}
		p.deleted = true
		p.devs = nil
		b.stamp(p)
		s.Logf("backend: profile %s deleted", p.id)
	case op == 7: // re-create a deleted profile
		for _, p := range b.profs {
			if p.deleted {
				p.deleted = false
				p.seed = t.Choose(1000, "prof-seed")
				b.stamp(p)
				s.Logf("backend: profile %s re-created", p.id)

				return
			}
		}
	case op == 8 && len(live) > 0: // change profile settings
		p := kernel.Pick(t, live, "set-prof")
		p.seed = t.Choose(1000, "prof-seed")
		b.stamp(p)
		s.Logf("backend: profile %s settings -> %d", p.id, p.seed)
	case op == 9 && len(devs) > 0: // change device settings
		i := t.Choose(len(devs), "set-dev")
		devs[i].seed = t.Choose(1000, "dev-seed")
		b.stamp(owners[i])
		s.Logf("backend: device %s settings -> %d", devs[i].id, devs[i].seed)
	}
}

func without(ds []*tDev, d *tDev) (out []*tDev) {
	for _, x := range ds {
		if x != d {
			out = append(out, x)
		}
	}

	return out
}

func containsAddr(as []netip.Addr, a netip.Addr) bool {
	for _, x := range as {
		if x == a {
			return true
		}
	}

	return false
}

func withoutAddr(as []netip.Addr, a netip.Addr) (out []netip.Addr) {
	for _, x := range as {
		if x != a {
			out = append(out, x)
		}
	}

	return out
}

// ---- record construction (every field combination through the seeds) ----

func mkDevice(d *tDev) (rec *agd.Device) {
	s := d.seed
	rec = &agd.Device{
		ID:               d.id,
		LinkedIP:         d.linked,
		Name:             agd.DeviceName(fmt.Sprintf("name-%s-%d", d.id, s%7)),
		HumanIDLower:     agd.HumanIDLower(d.human),
		DedicatedIPs:     append([]netip.Addr(nil), d.ded...),
		FilteringEnabled: s%2 == 0,
	}

	switch s % 5 {
	case 0:
		rec.Auth = &agd.AuthSettings{Enabled: false, PasswordHash: agdpasswd.AllowAuthenticator{}}
	case 1:
		rec.Auth = &agd.AuthSettings{Enabled: true, DoHAuthOnly: true, PasswordHash: agdpasswd.NewPasswordHashBcrypt([]byte(fmt.Sprintf("$2a$04$hash%d", s)))}
	case 2:
		rec.Auth = &agd.AuthSettings{Enabled: true, DoHAuthOnly: false, PasswordHash: agdpasswd.NewPasswordHashBcrypt([]byte(fmt.Sprintf("$2a$04$other%d", s)))}
	case 3:
		rec.Auth = &agd.AuthSettings{Enabled: true, DoHAuthOnly: false, PasswordHash: agdpasswd.AllowAuthenticator{}}
	default:
		rec.Auth = &agd.AuthSettings{Enabled: false, DoHAuthOnly: false, PasswordHash: agdpasswd.AllowAuthenticator{}}
	}

	return rec
}

func mkProfile(p *tProf, upd time.Time) (rec *agd.Profile, devs []*agd.Device) {
	s := p.seed
	rec = &agd.Profile{
		ID:                  p.id,
		Deleted:             p.deleted,
		FilteredResponseTTL: time.Duration(s%4) * 10 * time.Second,
		AutoDevicesEnabled:  false,
		BlockChromePrefetch: s&1 != 0,
		BlockFirefoxCanary:  s&2 != 0,
		BlockPrivateRelay:   s&4 != 0,
		FilteringEnabled:    s&8 != 0,
		IPLogEnabled:        s&16 != 0,
		QueryLogEnabled:     s&32 != 0,
	}

	switch s % 5 {
	case 0:
		rec.BlockingMode = &dnsmsg.BlockingModeNullIP{}
	case 1:
		rec.BlockingMode = &dnsmsg.BlockingModeCustomIP{IPv4: mustAddrs("203.0.113.1")}
	case 2:
		rec.BlockingMode = &dnsmsg.BlockingModeCustomIP{IPv4: mustAddrs("203.0.113.1", "203.0.113.2"), IPv6: mustAddrs("2001:db8:ff::1")}
	case 3:
		rec.BlockingMode = &dnsmsg.BlockingModeNXDOMAIN{}
	default:
		rec.BlockingMode = &dnsmsg.BlockingModeREFUSED{}
	}

	// Access settings: every combination of the five kinds of rules (none at
	// all is the empty profile).
	if bits := (s*7 + 3) % 32; bits == 0 {
		rec.Access = access.EmptyProfile{}
	} else {
		ac := &access.ProfileConfig{}
		if bits&1 != 0 {
			ac.AllowedNets = []netip.Prefix{netip.MustParsePrefix("1.1.1.0/24")}
		}
		if bits&2 != 0 {
			ac.BlockedNets = []netip.Prefix{netip.MustParsePrefix("2.2.0.0/16"), netip.MustParsePrefix("2001:db8:2::/48"), netip.MustParsePrefix("3.3.3.3/32")}
		}
		if s%3 == 0 {
			// Networks as a backend may write them: with an address inside
			// the network rather than its first one.
			for i, p := range ac.AllowedNets {
				ac.AllowedNets[i] = netip.PrefixFrom(p.Addr().Next(), p.Bits())
			}
			for i, p := range ac.BlockedNets[:min(len(ac.BlockedNets), 2)] {
				ac.BlockedNets[i] = netip.PrefixFrom(p.Addr().Next().Next(), p.Bits())
			}
		}
		if bits&4 != 0 {
			ac.AllowedASN = []geoip.ASN{geoip.ASN(s)}
		}
		if bits&8 != 0 {
			ac.BlockedASN = []geoip.ASN{2, 3}
		}
		if bits&16 != 0 {
			ac.BlocklistDomainRules = []string{"block.test", fmt.Sprintf("||r%d.test^", s)}
		}
		rec.Access = access.NewDefaultProfile(ac)
	}

	switch s % 4 {
	case 0:
		rec.Ratelimiter = agd.GlobalRatelimiter{}
	case 1:
		rec.Ratelimiter = agd.NewDefaultRatelimiter(&agd.RatelimitConfig{RPS: uint32(1 + s%50), Enabled: true}, respSzEst)
	default:
		rec.Ratelimiter = agd.NewDefaultRatelimiter(&agd.RatelimitConfig{
			ClientSubnets: []netip.Prefix{netip.MustParsePrefix("5.5.5.0/24"), netip.MustParsePrefix("2001:db8:5::/64")},
			RPS:           uint32(10 + s%90),
			Enabled:       true,
		}, respSzEst)
	}

	parental := &filter.ConfigParental{
		Enabled:                  s&64 != 0,
		AdultBlockingEnabled:     s&128 != 0,
		SafeSearchGeneralEnabled: s&256 != 0,
		SafeSearchYouTubeEnabled: s&512 != 0,
	}
	if s%2 == 0 {
		parental.BlockedServices = []filter.BlockedServiceID{"svc_a", filter.BlockedServiceID(fmt.Sprintf("svc_%d", s%9))}
	}
	if s%3 != 0 {
		loc, err := agdtime.LoadLocation(locNames[s%len(locNames)])
		if err != nil {
			panic(err)
		}
		week := &filter.WeeklySchedule{}
		for day := 0; day < 7; day++ {
			if (s>>uint(day))&1 == 1 {
				week[day] = &filter.DayInterval{Start: uint16(s % 600), End: uint16(s%600 + 1 + day*60)}
			}
		}
		parental.PauseSchedule = &filter.ConfigSchedule{Week: week, TimeZone: loc}
	}

	custom := &filter.ConfigCustom{ID: string(p.id), UpdateTime: upd}
	if s%2 == 1 {
		custom.Rules = []filter.RuleText{"||custom.test^", filter.RuleText(fmt.Sprintf("||c%d.test^", s))}
		custom.Enabled = true
	}

	rl := &filter.ConfigRuleList{Enabled: s&1024 != 0}
	if s%3 != 1 {
		rl.IDs = []filter.ID{"list_a", filter.ID(fmt.Sprintf("list_%d", s%5))}
	}

	rec.FilterConfig = &filter.ConfigClient{
		Custom:   custom,
		Parental: parental,
		RuleList: rl,
		SafeBrowsing: &filter.ConfigSafeBrowsing{
			Enabled:                       s%2 == 0,
			DangerousDomainsEnabled:       s%3 == 0,
			NewlyRegisteredDomainsEnabled: s%5 == 0,
		},
	}

	for _, d := range p.devs {
		rec.DeviceIDs = append(rec.DeviceIDs, d.id)
		devs = append(devs, mkDevice(d))
	}

	return rec, devs
}

// ---- reference model ----

type version struct {
	profs map[agd.ProfileID]*agd.Profile
	devs  map[agd.DeviceID]*agd.Device

	// from is the stamp at which the storage returned the response that
	// produced this version; until is the stamp at which the refresh that
	// replaced it returned (0 while current).
	from, until int

	full bool

	// sync is the backend's clock at the response that produced this
	// version: the place in the backend's change log.
	sync int64
}

func (v *version) clone() (c *version) {
	c = &version{profs: map[agd.ProfileID]*agd.Profile{}, devs: map[agd.DeviceID]*agd.Device{}}
	for k, x := range v.profs {
		c.profs[k] = x
	}
	for k, x := range v.devs {
		c.devs[k] = x
	}

	return c
}

func (v *version) apply(resp *profiledb.StorageProfilesResponse, full bool) {
	if full {
		clear(v.profs)
		clear(v.devs)
	}
	for _, p := range resp.Profiles {
		v.profs[p.ID] = p
	}
	for _, d := range resp.Devices {
		v.devs[d.ID] = d
	}
	v.full = full
}

// owner returns the profile whose latest record lists the device.
func (v *version) owner(id agd.DeviceID) (p *agd.Profile) {
	ids := make([]string, 0, len(v.profs))
	for k := range v.profs {
		ids = append(ids, string(k))
	}
	sort.Strings(ids)
	for _, k := range ids {
		pr := v.profs[agd.ProfileID(k)]
		for _, d := range pr.DeviceIDs {
			if d == id {
				return pr
			}
		}
	}

	return nil
}

type key struct {
	kind  string // "dev", "lip", "dip", "hid"
	dev   agd.DeviceID
	ip    netip.Addr
	prof  agd.ProfileID
	human agd.HumanIDLower
}

func (k key) String() string {
	switch k.kind {
	case "dev":
		return "dev:" + string(k.dev)
	case "lip":
		return "lip:" + k.ip.String()
	case "dip":
		return "dip:" + k.ip.String()
	default:
		return fmt.Sprintf("hid:%s/%s", k.prof, k.human)
	}
}

// lookup answers key k from the model: the device that currently owns the key
// and the profile that currently contains that device.
func (v *version) lookup(k key) (p *agd.Profile, d *agd.Device) {
	if k.kind == "dev" {
		d = v.devs[k.dev]
		p = v.owner(k.dev)
		if d == nil || p == nil {
			return nil, nil
		}

		return p, d
	}

	ids := make([]string, 0, len(v.devs))
	for id := range v.devs {
		ids = append(ids, string(id))
	}
	sort.Strings(ids)

	for _, id := range ids {
		dev := v.devs[agd.DeviceID(id)]
		owner := v.owner(dev.ID)
		if owner == nil {
			continue
		}

		switch k.kind {
		case "lip":
			if dev.LinkedIP == k.ip {
				return owner, dev
			}
		case "dip":
			if containsAddr(dev.DedicatedIPs, k.ip) {
				return owner, dev
			}
		case "hid":
			if owner.ID == k.prof && dev.HumanIDLower != "" && dev.HumanIDLower == k.human {
				return owner, dev
			}
		}
	}

	return nil, nil
}

// ---- world ----

type world struct {
	s       *kernel.Sim
	be      *backend
	db      *profiledb.Default
	dir     string
	tick    int
	vers    []*version
	pending *version

	refreshStart int // stamp of the Refresh in flight, 0 if none

	// cleanupRaced is set when a background clean-up of the database was
	// still pending while a synchronisation was in flight.
	cleanupRaced bool

	// overlap is set in the sub-batch in which two tasks refresh the
	// database (the periodic worker and the debug API do in production): a
	// response is then entered into the history as soon as the next request
	// reaches the storage, or when the Refresh call that asked for it returns.
	overlap bool

	// diskGone is set while the cache directory is moved away.
	diskGone bool

	// diskFull is set while the size of files is limited.
	diskFull bool

	lastStored *version // version written by the last store that completed
	storing    *version // version a store in progress is writing
	images     int
}

// commitPending enters the version of the last storage response into the
// history.
func (w *world) commitPending(end int) {
	if w.pending == nil {
		return
	}

	w.cur().until = end
	w.vers = append(w.vers, w.pending)
	if w.pending.full {
		w.s.Probe("full-sync")
	} else {
		w.s.Probe("incremental-sync")
	}
	w.pending = nil
}

// errText is err's text without the run's scratch directory and the random
// names of temporary files (traces are compared between processes).
func (w *world) errText(err error) (text string) {
	if err == nil {
		return "<nil>"
	}
	text = strings.ReplaceAll(err.Error(), filepath.Dir(w.dir), "<scratch>")
	if i := strings.Index(text, "cache.pb"); i >= 0 {
		if j := strings.IndexAny(text[i:], ": "); j > len("cache.pb") {
			text = text[:i+len("cache.pb")] + "<tmp>" + text[i+j:]
		}
	}

	return text
}

func (w *world) stamp() int {
	w.tick++

	return w.tick
}

func (w *world) cur() *version { return w.vers[len(w.vers)-1] }

type storage struct{ w *world }

func (st *storage) CreateAutoDevice(
	context.Context,
	*profiledb.StorageCreateAutoDeviceRequest,
) (*profiledb.StorageCreateAutoDeviceResponse, error) {
	return nil, errors.New("sim: auto devices not simulated")
}

func (st *storage) Profiles(
	_ context.Context,
	req *profiledb.StorageProfilesRequest,
) (resp *profiledb.StorageProfilesResponse, err error) {
	w := st.w
	s := w.s
	t := s.T
	b := w.be

	if w.overlap {
		// The database serialises its refreshes: the previous response has
		// been applied by now.
		w.commitPending(w.stamp())
	}

	// The request is in flight: the backend may change and lookups may run.
	s.Yield("storage-request")

	for _, ns := range s.Parked() {
		if ns[0] == "anon" && strings.HasPrefix(ns[1], "internal/profiledb/profiledb.go") {
			s.Probe("cleanup-pending-while-sync-in-flight")
			w.cleanupRaced = true
		}
	}

	if t.Chance(1, 6, "storage-error") {
		s.Fault("storage-error")
		s.Logf("storage: error")

		if t.Chance(1, 2, "storage-timeout") {
			return nil, fmt.Errorf("sim storage: %w", context.DeadlineExceeded)
		}

		return nil, errors.New("sim storage: unavailable")
	}

	full := req.SyncTime.IsZero()
	since := int64(0)
	if !full {
		since = int64(req.SyncTime.Sub(baseTime()) / time.Millisecond)
	}

	b.clock++
	upd := baseTime().Add(time.Duration(b.clock) * time.Millisecond)
	resp = &profiledb.StorageProfilesResponse{SyncTime: upd}

	var ps []*tProf
	for _, p := range b.profs {
		if full && p.deleted {
			continue
		}
		if p.mod > since || full {
			ps = append(ps, p)
		}
	}

	// The backend sends changed profiles in no particular order.
	for i := len(ps) - 1; i > 0; i-- {
		j := t.Choose(i+1, "resp-order")
		ps[i], ps[j] = ps[j], ps[i]
	}

	var names []string
	for _, p := range ps {
		rec, devs := mkProfile(p, baseTime().Add(time.Duration(p.mod)*time.Millisecond))
		resp.Profiles = append(resp.Profiles, rec)
		resp.Devices = append(resp.Devices, devs...)
		names = append(names, fmt.Sprintf("%s%v(del=%v)", p.id, rec.DeviceIDs, p.deleted))
	}

	// A request with a zero sync time is a full synchronisation, or the first
	// synchronisation of a database that holds nothing yet; replacing and
	// upserting coincide in the latter case.
	isFullForDB := full
	nv := w.cur().clone()
	nv.apply(resp, isFullForDB)
	nv.from = w.stamp()
	nv.sync = b.clock
	w.pending = nv
	if full {
		w.storing = nv
	}

	s.Logf("storage: response@%d since=%d full(db)=%v profiles=%v", nv.from, since, isFullForDB, names)

	return resp, nil
}

// check compares a lookup's outcome with the versions that were in force at
// some instant between its invocation and its return.
func (w *world) check(k key, inv, ret int, p *agd.Profile, d *agd.Device, err error) {
	s := w.s
	notFound := err != nil
	if err != nil && !errors.Is(err, profiledb.ErrDeviceNotFound) && !errors.Is(err, profiledb.ErrProfileNotFound) {
		s.Failf("C14/lookup-error", "lookup returned an unexpected error", "%s: %v", k, err)

		return
	}

	cands := append([]*version{}, w.vers...)
	if w.pending != nil {
		cands = append(cands, w.pending)
	}

	var tried []string
	for _, v := range cands {
		if v.from > ret || (v.until != 0 && v.until < inv) {
			continue
		}

		wp, wd := v.lookup(k)
		if notFound && wp == nil {
			return
		}

		if !notFound && wp == p && wd == d {
			return
		}

		if wp == nil {
			tried = append(tried, fmt.Sprintf("v@%d:not-found", v.from))
		} else {
			tried = append(tried, fmt.Sprintf("v@%d:%s/%s", v.from, wp.ID, wd.ID))
		}
	}

	got := "not-found"
	if !notFound {
		got = fmt.Sprintf("%s/%s", p.ID, d.ID)
		if wp, wd := w.cur().lookup(k); wp != nil && wp.ID == p.ID && wd.ID == d.ID {
			s.Failf("C14/stale-record", "lookup returned an outdated record of the right device",
				"%s: got an older record of %s/%s", k, p.ID, d.ID)

			return
		}
	}

	kind := "wrong owner"
	if notFound {
		kind = "not-found for a key a current device owns"
	} else if len(tried) > 0 && strings.HasSuffix(tried[len(tried)-1], "not-found") {
		kind = "found for a key no current device owns"
	}

	s.Failf("C14/lookup", fmt.Sprintf("lookup by %s: %s", k.kind, kind),
		"%s [%d,%d]: got %s, model says %v (%v)", k, inv, ret, got, tried, err)
}

func (w *world) doLookup(db *profiledb.Default, k key) (p *agd.Profile, d *agd.Device, err error) {
	defer func() {
		if err == nil && p != nil && p.Access != nil {
			// What the server does next with a request it has attributed:
			// ask the profile's access settings about it.  (They must be the
			// same settings afterwards: the database stores them again.)
			q := (&dns.Msg{}).SetQuestion("block.test.", dns.TypeA)
			_ = p.Access.IsBlocked(q, netip.MustParseAddrPort("9.9.9.9:5353"), nil)
		}
	}()

	ctx := context.Background()
	switch k.kind {
	case "dev":
		return db.ProfileByDeviceID(ctx, k.dev)
	case "lip":
		return db.ProfileByLinkedIP(ctx, k.ip)
	case "dip":
		return db.ProfileByDedicatedIP(ctx, k.ip)
	default:
		return db.ProfileByHumanID(ctx, k.prof, k.human)
	}
}

func (w *world) allKeys() (ks []key) {
	for i := 1; i <= w.be.nDev+1; i++ {
		ks = append(ks, key{kind: "dev", dev: agd.DeviceID(fmt.Sprintf("dev%d", i))})
	}
	for _, ip := range linkedPool {
		ks = append(ks, key{kind: "lip", ip: ip})
	}
	for _, ip := range dedPool {
		ks = append(ks, key{kind: "dip", ip: ip})
	}
	for _, p := range w.be.profs {
		for _, h := range humanPool {
			ks = append(ks, key{kind: "hid", prof: p.id, human: agd.HumanIDLower(h)})
		}
	}

	return ks
}

func (w *world) randKey() (k key) {
	t := w.s.T
	if len(w.be.hot) > 0 && t.Chance(2, 3, "key-hot") {
		return kernel.Pick(t, w.be.hot, "key-hot-which")
	}

	switch t.Choose(4, "key-kind") {
	case 0:
		return key{kind: "lip", ip: kernel.Pick(t, linkedPool, "key-lip")}
	case 1:
		return key{kind: "dev", dev: agd.DeviceID(fmt.Sprintf("dev%d", 1+t.Choose(w.be.nDev+1, "key-dev")))}
	case 2:
		return key{kind: "dip", ip: kernel.Pick(t, dedPool, "key-dip")}
	default:
		return key{
			kind:  "hid",
			prof:  kernel.Pick(t, w.be.profs, "key-prof").id,
			human: agd.HumanIDLower(kernel.Pick(t, humanPool, "key-hid")),
		}
	}
}

func (w *world) newDB(path string, st profiledb.Storage) (db *profiledb.Default) {
	db, err := profiledb.New(&profiledb.Config{
		Logger:               slog.New(slog.DiscardHandler),
		Storage:              st,
		ErrColl:              nopErrColl{},
		Metrics:              profiledb.EmptyMetrics{},
		CacheFilePath:        path,
		FullSyncIvl:          10 * time.Minute,
		FullSyncRetryIvl:     1 * time.Minute,
		ResponseSizeEstimate: respSzEst,
	})
	if err != nil {
		panic(err)
	}

	return db
}

// restartEquals reports whether a database restarted from the cache file at
// path answers every lookup as version v does, with every setting preserved.
func (w *world) restartEquals(path string, v *version) (diff string) {
	db2 := w.newDB(path, &storage{w: w})
	for _, k := range w.allKeys() {
		p, d, err := w.doLookup(db2, k)
		var wp *agd.Profile
		var wd *agd.Device
		if v != nil {
			wp, wd = v.lookup(k)
		}

		if (err != nil) != (wp == nil) {
			return fmt.Sprintf("%s: restarted db err=%v, expected found=%v", k, err, wp != nil)
		}

		if err != nil {
			continue
		}

		if a, b := model.Describe(p), model.Describe(wp); a != b {
			return fmt.Sprintf("%s: profile settings differ after restart:\n got  %s\n want %s", k, a, b)
		}

		if a, b := model.Describe(d), model.Describe(wd); a != b {
			return fmt.Sprintf("%s: device settings differ after restart:\n got  %s\n want %s", k, a, b)
		}
	}

	return ""
}

// crashImage copies the cache directory as a killed process would leave it
// and checks that a restart from the copy yields the previous or the new
// complete cache.
func (w *world) crashImage(site string) {
	s := w.s
	img, err := os.MkdirTemp(filepath.Dir(w.dir), "image")
	if err != nil {
		panic(err)
	}
	defer func() { _ = os.RemoveAll(img) }()

	ents, _ := os.ReadDir(w.dir)
	var names []string
	for _, e := range ents {
		b, rerr := os.ReadFile(filepath.Join(w.dir, e.Name()))
		if rerr != nil {
			continue
		}
		_ = os.WriteFile(filepath.Join(img, e.Name()), b, 0o600)
		names = append(names, fmt.Sprintf("%s(%dB)", e.Name(), len(b)))
	}

	w.images++
	s.Fault("kill-during-store")
	s.Logf("crash image at %s: %v", site, names)

	var d1, d2 string
	s.Unhooked(func() {
		d1 = w.restartEquals(filepath.Join(img, "cache.pb"), w.lastStored)
		if d1 != "" && w.storing != nil {
			d2 = w.restartEquals(filepath.Join(img, "cache.pb"), w.storing)
		}
	})

	if d1 == "" {
		s.Probe("image-loads-previous-cache")

		return
	}

	if w.storing != nil && d2 == "" {
		s.Probe("image-loads-new-cache")

		return
	}

	s.Failf("C14/crash-image", "process killed during store restarts with neither the previous nor the new cache",
		"image taken at %s (%v): vs previous: %s; vs new: %s", site, names, d1, d2)
}

func run(s *kernel.Sim, _, cfg string) {
	t := s.T
	dir, err := os.MkdirTemp(scratchRoot(), "pdbsim")
	if err != nil {
		panic(err)
	}
	defer func() { _ = os.RemoveAll(dir) }()

	cacheDir := filepath.Join(dir, "cache")
	_ = os.Mkdir(cacheDir, 0o700)

	w := &world{s: s, dir: cacheDir}
	// Whatever happens to the run, the process gets its file sizes back.
	defer func() {
		if w.diskFull {
			setFileSizeLimit(0)
		}
	}()
	w.be = &backend{w: w, ops: []int{0}}
	for op := 1; op < 10; op++ {
		if t.Chance(1, 2, "swarm-op") {
			w.be.ops = append(w.be.ops, op)
		}
	}
	w.be.nLinked = t.Range(1, len(linkedPool), "swarm-linked")
	w.be.nDed = t.Range(1, len(dedPool), "swarm-ded")
	w.be.nHuman = t.Range(1, len(humanPool), "swarm-human")
	nProf := t.Range(1, 3, "profiles")
	if cfg == "toggle" {
		// Concentrated: one key of each kind going back and forth between
		// very few devices of one profile, so that a key lost and regained
		// (also by the same device) meets pending clean-ups.
		w.be.ops = []int{0, 3, 4, 5}
		w.be.nLinked, w.be.nDed, w.be.nHuman, nProf = 1, 1, 1, 1
	}
	for i := 0; i < nProf; i++ {
		w.be.profs = append(w.be.profs, &tProf{id: agd.ProfileID(fmt.Sprintf("prof%d", i)), seed: t.Choose(1000, "prof-seed")})
		w.be.stamp(w.be.profs[i])
	}
	for i := t.Range(1, 6, "initial-mutations"); i > 0; i-- {
		w.be.mutate()
	}

	w.vers = []*version{{profs: map[agd.ProfileID]*agd.Profile{}, devs: map[agd.DeviceID]*agd.Device{}}}
	st := &storage{w: w}
	cachePath := filepath.Join(cacheDir, "cache.pb")
	w.db = w.newDB(cachePath, st)

	w.overlap = cfg == "overlap"
	crash := cfg != "nocrash" && cfg != "toggle" && !w.overlap
	s.DeferBackground = true
	s.Invariant = func() {
		if !crash || w.storing == nil || w.diskGone || w.diskFull {
			return
		}
		for _, site := range s.ParkedSites() {
			if strings.Contains(site, "renameio") || strings.Contains(site, "filecachepb") {
				if t.Chance(1, 2, "take-image") {
					w.crashImage(site)
				}

				return
			}
		}
	}

	nSync := t.Range(1, 6, "syncs")
	s.Go("syncer", func() {
		for i := 0; i < nSync; i++ {
			s.Yield("before-sync")
			for m := t.Choose(4, "mutations"); m > 0; m-- {
				w.be.mutate()
			}

			// The gap steers the database's own choice between full and
			// incremental synchronisation (10 min interval, 1 min retry).
			gap := kernel.Pick(t, []time.Duration{0, time.Second, 30 * time.Second, 61 * time.Second, 10*time.Minute + time.Second}, "sync-gap")
			time.Sleep(gap)

			before, _ := os.ReadFile(cachePath)

			// The other disk fault: the file system takes only so many
			// octets per file while this synchronisation runs (a full disk,
			// a quota), so that the write of the cache file fails part-way.
			if !w.overlap && !w.diskGone && t.Chance(1, 8, "disk-full") {
				w.diskFull = true
				setFileSizeLimit(uint64(kernel.Pick(t, []int{1, 16, 64, 200}, "disk-full-after")))
				s.Fault("disk-full-during-store")
			}

			// The disk fault: the cache directory is not there while this
			// synchronisation runs, so that a full one cannot write its
			// file.  What it has fetched must be applied all the same.
			if !w.overlap && t.Chance(1, 8, "cache-dir-gone") {
				w.diskGone = true
				if rerr := os.Rename(cacheDir, cacheDir+".away"); rerr != nil {
					panic(rerr)
				}
				s.Fault("cache-directory-gone")
			}

			w.refreshStart = w.stamp()
			s.Logf("syncer: refresh#%d begins@%d", i, w.refreshStart)
			rerr := w.db.Refresh(context.Background())
			end := w.stamp()
			if w.diskGone {
				if rnerr := os.Rename(cacheDir+".away", cacheDir); rnerr != nil {
					panic(rnerr)
				}
				w.diskGone = false
			}
			if w.diskFull {
				setFileSizeLimit(0)
				w.diskFull = false
			}
			if w.overlap {
				w.commitPending(end)
				w.storing = nil
				s.Logf("syncer: refresh#%d ends@%d err=%v", i, end, w.errText(rerr))

				continue
			}
			after, _ := os.ReadFile(cachePath)
			stored := string(before) != string(after)
			if w.pending != nil {
				w.cur().until = end
				w.vers = append(w.vers, w.pending)
				if stored {
					w.lastStored = w.pending
				}
				if w.pending.full {
					s.Probe("full-sync")
				} else {
					s.Probe("incremental-sync")
				}
				w.pending = nil
			}
			w.storing = nil
			w.refreshStart = 0
			s.Logf("syncer: refresh#%d ends@%d err=%v stored=%v", i, end, w.errText(rerr), stored)

			if stored {
				s.Probe("cache-stored")
				if diff := w.restartEquals(cachePath, w.lastStored); diff != "" {
					s.Failf("C14/restart", "database restarted from its file cache answers differently", "%s", diff)
				}
			}
		}
	})

	if w.overlap {
		// A second caller of Refresh that changes nothing at the backend.
		n2 := t.Range(1, 4, "second-refresher-calls")
		s.Go("refresher2", func() {
			for i := 0; i < n2; i++ {
				time.Sleep(kernel.Pick(t, []time.Duration{0, time.Second, 61 * time.Second, 10*time.Minute + time.Second}, "refresh2-gap"))
				s.Yield("before-refresh2")
				begin := w.stamp()
				rerr := w.db.Refresh(context.Background())
				end := w.stamp()
				w.commitPending(end)
				s.Logf("refresher2: refresh [%d,%d] err=%v", begin, end, w.errText(rerr))
				s.Probe("second-refresher-call")
			}
		})
	}

	nLook := t.Range(1, 3, "lookup-tasks")
	for li := 0; li < nLook; li++ {
		name := fmt.Sprintf("look%d", li)
		n := t.Range(1, 12, "lookups")
		s.Go(name, func() {
			for j := 0; j < n; j++ {
				// Lookups are spread over simulated time so that they fall
				// before, between and after the synchronisations.
				time.Sleep(kernel.Pick(t, []time.Duration{0, time.Second, 31 * time.Second, 5 * time.Minute}, "lookup-gap"))
				s.Yield("before-lookup")
				k := w.randKey()
				inv := w.stamp()
				p, d, lerr := w.doLookup(w.db, k)
				ret := w.stamp()
				res := "not-found"
				if lerr == nil {
					res = fmt.Sprintf("%s/%s", p.ID, d.ID)
				}
				s.Logf("%s: %s [%d,%d] -> %s", name, k, inv, ret, res)
				w.check(k, inv, ret, p, d, lerr)
			}
		})
	}

	s.Run()
	if s.Failed() != nil || s.Capped {
		return
	}

	if s.Stuck {
		s.Failf("C14/stuck", "profile database deadlocked", "tasks cannot make progress")

		return
	}

	// Quiescence: every background clean-up has run.  All keys must now be
	// answered exactly as the latest version says.
	s.Go("final", func() {
		for _, k := range w.allKeys() {
			inv := w.stamp()
			p, d, lerr := w.doLookup(w.db, k)
			ret := w.stamp()
			w.check(k, inv, ret, p, d, lerr)
		}
	})
	s.Run()
	if s.Failed() != nil {
		return
	}

	// And once more after the clean-ups those lookups spawned.
	s.Go("final2", func() {
		for _, k := range w.allKeys() {
			inv := w.stamp()
			p, d, lerr := w.doLookup(w.db, k)
			ret := w.stamp()
			w.check(k, inv, ret, p, d, lerr)
		}
	})
	s.Run()
	if s.Failed() != nil || w.lastStored == nil {
		return
	}

	// Restart and carry on: the backend changes, a new process starts from
	// the cache file and synchronises (incrementally, while the cache is
	// recent).  What it answers afterwards must be the cached data with the
	// backend's changes since then applied: a restart must not lose its
	// place in the backend's change log.
	s.Go("restart", func() {
		for m := 1 + t.Choose(4, "mutations-before-restart"); m > 0; m-- {
			w.be.mutate()
		}
		time.Sleep(kernel.Pick(t, []time.Duration{time.Second, 30 * time.Second, 5 * time.Minute}, "restart-gap"))

		st2 := &plainStorage{w: w}
		db2 := w.newDB(cachePath, st2)
		rerr := db2.Refresh(context.Background())
		if rerr != nil || st2.resp == nil {
			s.Failf("C14/restart-sync", "synchronisation after a restart failed", "%v", rerr)

			return
		}
		// The reference does not depend on what the restarted database asked
		// for: everything the backend changed after the cached response.
		want := w.lastStored.clone()
		exp := &profiledb.StorageProfilesResponse{}
		for _, p := range w.be.profs {
			if st2.full && p.deleted {
				continue
			}
			if st2.full || p.mod > w.lastStored.sync {
				rec, devs := mkProfile(p, baseTime().Add(time.Duration(p.mod)*time.Millisecond))
				exp.Profiles = append(exp.Profiles, rec)
				exp.Devices = append(exp.Devices, devs...)
			}
		}
		want.apply(exp, st2.full)
		s.Logf("restart: database from the cache synchronises (full=%v, %d profiles)", st2.full, len(st2.resp.Profiles))
		s.Probe("restarted-and-synchronised")
		// Twice: the first pass lets stale index entries be cleaned up.
		for pass := 0; pass < 2; pass++ {
			for _, k := range w.allKeys() {
				p, d, lerr := w.doLookup(db2, k)
				if pass == 0 {
					continue
				}
				wp, wd := want.lookup(k)
				got, exp := "not-found", "not-found"
				if lerr == nil {
					got = fmt.Sprintf("%s/%s", p.ID, d.ID)
				}
				if wp != nil {
					exp = fmt.Sprintf("%s/%s", wp.ID, wd.ID)
				}
				if got != exp {
					s.Failf("C14/restart-sync", "a database restarted from its cache and synchronised does not reflect the backend's latest data",
						"%s: restarted database says %s, cache plus the backend's changes say %s", k, got, exp)

					return
				}
			}
			time.Sleep(time.Millisecond)
		}
	})
	s.Run()
}

// plainStorage answers like storage, without faults and without touching the
// world's version history; it keeps the response it gave.
type plainStorage struct {
	w    *world
	resp *profiledb.StorageProfilesResponse
	full bool
}

func (st *plainStorage) CreateAutoDevice(
	context.Context,
	*profiledb.StorageCreateAutoDeviceRequest,
) (*profiledb.StorageCreateAutoDeviceResponse, error) {
	return nil, errors.New("sim: auto devices not simulated")
}

func (st *plainStorage) Profiles(
	_ context.Context,
	req *profiledb.StorageProfilesRequest,
) (resp *profiledb.StorageProfilesResponse, err error) {
	b := st.w.be
	full := req.SyncTime.IsZero()
	since := int64(0)
	if !full {
		since = int64(req.SyncTime.Sub(baseTime()) / time.Millisecond)
	}
	b.clock++
	resp = &profiledb.StorageProfilesResponse{SyncTime: baseTime().Add(time.Duration(b.clock) * time.Millisecond)}
	for _, p := range b.profs {
		if full && p.deleted {
			continue
		}
		if p.mod > since || full {
			rec, devs := mkProfile(p, baseTime().Add(time.Duration(p.mod)*time.Millisecond))
			resp.Profiles = append(resp.Profiles, rec)
			resp.Devices = append(resp.Devices, devs...)
		}
	}
	st.resp, st.full = resp, full

	return resp, nil
}

func scratchRoot() string {
	if d := os.Getenv("VERIF_RUNDIR"); d != "" {
		return d
	}

	return os.TempDir()
}

var (
	fsizeOnce sync.Once
	fsizeOld  syscall.Rlimit
)

// setFileSizeLimit limits the size of every file this process writes to n
// octets (RLIMIT_FSIZE; a write beyond it fails with EFBIG once SIGXFSZ is
// ignored); zero lifts the limit again.
func setFileSizeLimit(n uint64) {
	fsizeOnce.Do(func() {
		signal.Ignore(syscall.SIGXFSZ)
		if err := syscall.Getrlimit(syscall.RLIMIT_FSIZE, &fsizeOld); err != nil {
			panic(err)
		}
	})
	lim := fsizeOld
	if n > 0 {
		lim.Cur = n
	}
	if err := syscall.Setrlimit(syscall.RLIMIT_FSIZE, &lim); err != nil {
		panic(err)
	}
}

func TestWorker(t *testing.T) {
	kernel.WorkerMain(t, &kernel.Engine{Name: "pdbsim", Run: run})
}
