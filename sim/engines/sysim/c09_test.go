package sysim

import (
	"context"
	"fmt"
	"log/slog"
	"net/netip"
	"strings"
	"time"

	"github.com/AdguardTeam/AdGuardDNS/internal/access"
	"github.com/AdguardTeam/AdGuardDNS/internal/agd"
	"github.com/AdguardTeam/AdGuardDNS/internal/agdpasswd"
	"github.com/AdguardTeam/AdGuardDNS/internal/dnsmsg"
	"github.com/AdguardTeam/AdGuardDNS/internal/dnsserver"
	"github.com/AdguardTeam/AdGuardDNS/internal/dnsserver/ratelimit"
	"github.com/AdguardTeam/AdGuardDNS/internal/dnssvc"
	"github.com/AdguardTeam/AdGuardDNS/internal/filter"
	"github.com/AdguardTeam/AdGuardDNS/internal/profiledb"
	"github.com/AdguardTeam/AdGuardDNS/verif/kernel"
	"github.com/AdguardTeam/AdGuardDNS/verif/world"
	"github.com/c2h5oh/datasize"
	"github.com/miekg/dns"
)

// C09, middleware part: the rate-limiting stage of the real handler stack
// (dnssvc ratelimitmw) with the real global Backoff limiter and real
// per-profile limiters, driven through a history of requests from anonymous
// clients and from devices of profiles with and without a limit of their own,
// on plain DNS and on an encrypted server, on the simulated clock.  The
// reference is a sliding-window log per global subnet key and per profile.

type c09Window struct {
	events []time.Time
}

// add evaluates one countable event against limit/ivl and records it.
func (w *c09Window) add(now time.Time, limit int, ivl time.Duration, uncertain *bool) (over bool) {
	n := 0
	for _, e := range w.events {
		age := now.Sub(e)
		if age == ivl {
			*uncertain = true
		}
		if age <= ivl {
			n++
		}
	}
	w.events = append(w.events, now)
	if len(w.events) > 64 {
		w.events = w.events[len(w.events)-64:]
	}

	return n >= limit
}

type c09Key struct {
	win      c09Window
	firstHit time.Time
	hits     int
	hasHits  bool
}

type c09Cfg struct {
	limit4, limit6 int
	ivl4, ivl6     time.Duration
	len4, len6     int
	duration       time.Duration
	period         time.Duration
	backoffCount   int
	refuseANY      bool
	allow          []netip.Prefix
	respEst        int
}

// String keeps pointers (the zone of a netip.Addr) out of the trace.
func (c c09Cfg) String() string {
	return fmt.Sprintf("{limit4:%d limit6:%d ivl4:%v ivl6:%v len4:%d len6:%d period:%v duration:%v backoffCount:%d refuseANY:%v allow:%v respEst:%d}",
		c.limit4, c.limit6, c.ivl4, c.ivl6, c.len4, c.len6, c.period, c.duration, c.backoffCount, c.refuseANY, fmt.Sprint(c.allow), c.respEst)
}

type c09ProfSpec struct {
	id      agd.ProfileID
	dev     agd.DeviceID
	custom  bool
	rps     int
	subnets []netip.Prefix
	respEst int
	win     c09Window
}

type c09Model struct {
	c         c09Cfg
	keys      map[string]*c09Key
	uncertain bool
}

func (m *c09Model) hitsAlive(ks *c09Key, now time.Time) bool {
	if !ks.hasHits {
		return false
	}
	end := ks.firstHit.Add(m.c.duration)
	if now.Equal(end) {
		m.uncertain = true
	}

	return !now.After(end)
}

func (m *c09Model) globalEvent(ip netip.Addr, now time.Time) (over, backoff bool) {
	l := m.c.len4
	if ip.Is6() {
		l = m.c.len6
	}
	p, _ := ip.Prefix(l)
	ks := m.keys[p.String()]
	if ks == nil {
		ks = &c09Key{}
		m.keys[p.String()] = ks
	}
	if m.hitsAlive(ks, now) && ks.hits >= m.c.backoffCount {
		return false, true
	}
	limit, ivl := m.c.limit4, m.c.ivl4
	if ip.Is6() {
		limit, ivl = m.c.limit6, m.c.ivl6
	}
	over = ks.win.add(now, limit, ivl, &m.uncertain)
	if over {
		if m.hitsAlive(ks, now) {
			ks.hits++
		} else {
			ks.hasHits, ks.firstHit, ks.hits = true, now, 1
		}
	}

	return over, false
}

// decide returns whether the query must be dropped; respLen is the size of
// the response it gets when it is answered.
func (m *c09Model) decide(plainDNS bool, ip netip.Addr, prof *c09ProfSpec, qt uint16, respLen int, now time.Time) (drop bool, why string) {
	if !plainDNS {
		return false, "encrypted-transport"
	}

	if prof != nil && prof.custom {
		applies := len(prof.subnets) == 0
		for _, p := range prof.subnets {
			if p.Contains(ip) {
				applies = true
			}
		}
		if applies {
			if prof.win.add(now, prof.rps, time.Second, &m.uncertain) {
				return true, "profile-limit"
			}
			for i := 0; i < respLen/prof.respEst; i++ {
				prof.win.add(now, prof.rps, time.Second, &m.uncertain)
			}

			return false, "profile-pass"
		}
	}

	if m.c.refuseANY && qt == dns.TypeANY {
		return true, "any"
	}
	for _, p := range m.c.allow {
		if p.Contains(ip) {
			return false, "allowlisted"
		}
	}
	over, backoff := m.globalEvent(ip, now)
	if backoff {
		return true, "backoff"
	}
	if over {
		return true, "over-limit"
	}
	for i := 0; i < respLen/m.c.respEst; i++ {
		m.globalEvent(ip, now)
	}

	return false, "ok"
}

type c09Upstream struct {
	calls int
}

func (u *c09Upstream) ServeDNS(ctx context.Context, rw dnsserver.ResponseWriter, req *dns.Msg) error {
	u.calls++
	q := req.Question[0]
	resp := (&dns.Msg{}).SetReply(req)
	resp.RecursionAvailable = true
	// s<N>: about N octets of answers; n<N>: a negative answer of that size,
	// the bulk in the authority section (as signed denials are); x<N>: the
	// bulk in the additional section.
	size, where := 0, byte('s')
	if lname := strings.ToLower(q.Name); lname != "" {
		where = lname[0]
		fmt.Sscanf(lname[1:], "%d.", &size)
	}
	if where == 'n' {
		resp.Rcode = dns.RcodeNameError
	}
	for resp.Len() < size {
		n := size - resp.Len()
		if n > 200 {
			n = 200
		}
		rr := &dns.TXT{
			Hdr: dns.RR_Header{Name: q.Name, Rrtype: dns.TypeTXT, Class: dns.ClassINET, Ttl: 10},
			Txt: []string{strings.Repeat("x", n)},
		}
		switch where {
		case 'n':
			resp.Ns = append(resp.Ns, rr)
		case 'x':
			resp.Extra = append(resp.Extra, rr)
		default:
			resp.Answer = append(resp.Answer, rr)
		}
	}

	return rw.WriteMsg(ctx, req, resp)
}

var c09Clients = []string{
	"192.0.2.1", "192.0.2.77", "192.0.3.1", "198.51.100.9", "203.0.113.5",
	"2001:db8::1", "2001:db8::2", "2001:db8:0:1::1", "2001:db8:1::1",
}

func runC09(s *kernel.Sim, _ string) {
	t := s.T
	c := c09Cfg{
		limit4:       t.Range(1, 4, "limit4"),
		limit6:       t.Range(1, 4, "limit6"),
		ivl4:         kernel.Pick(t, []time.Duration{time.Second, 10 * time.Second}, "ivl4"),
		ivl6:         kernel.Pick(t, []time.Duration{time.Second, 5 * time.Second}, "ivl6"),
		len4:         kernel.Pick(t, []int{24, 16, 32}, "len4"),
		len6:         kernel.Pick(t, []int{64, 48, 128}, "len6"),
		backoffCount: t.Range(1, 3, "backoff-count"),
		refuseANY:    t.Chance(1, 2, "refuse-any"),
		respEst:      100,
	}
	c.period = kernel.Pick(t, []time.Duration{30 * time.Second, time.Minute}, "period")
	c.duration = kernel.Pick(t, []time.Duration{c.period, 2 * c.period}, "duration")
	if t.Chance(1, 2, "allowlist") {
		c.allow = append(c.allow, netip.MustParsePrefix("198.51.100.0/24"))
	}

	profs := []*c09ProfSpec{
		{id: "prof0", dev: "dev0"},
		{id: "prof1", dev: "dev1", custom: true, rps: t.Range(0, 3, "rps1"), respEst: kernel.Pick(t, []int{100, 250}, "est1")},
		{id: "prof2", dev: "dev2", custom: true, rps: t.Range(1, 3, "rps2"), respEst: 100,
			subnets: []netip.Prefix{netip.MustParsePrefix("192.0.2.0/24"), netip.MustParsePrefix("2001:db8::/64")}},
	}
	s.Logf("config %v; prof1 rps=%d est=%d; prof2 rps=%d subnets=%v", c, profs[1].rps, profs[1].respEst, profs[2].rps, profs[2].subnets)

	bo := ratelimit.NewBackoff(&ratelimit.BackoffConfig{
		Allowlist:            ratelimit.NewDynamicAllowlist(c.allow, nil),
		Period:               c.period,
		Duration:             c.duration,
		Count:                uint(c.backoffCount),
		ResponseSizeEstimate: datasize.ByteSize(c.respEst),
		IPv4Count:            uint(c.limit4),
		IPv4Interval:         c.ivl4,
		IPv4SubnetKeyLen:     c.len4,
		IPv6Count:            uint(c.limit6),
		IPv6Interval:         c.ivl6,
		IPv6SubnetKeyLen:     c.len6,
		RefuseANY:            c.refuseANY,
	})
	kernel.KeepAlive(bo)

	var precs []*agd.Profile
	var drecs []*agd.Device
	for _, p := range profs {
		var rl agd.Ratelimiter = agd.GlobalRatelimiter{}
		if p.custom {
			rl = agd.NewDefaultRatelimiter(&agd.RatelimitConfig{
				ClientSubnets: p.subnets, RPS: uint32(p.rps), Enabled: true,
			}, datasize.ByteSize(p.respEst))
		}
		precs = append(precs, &agd.Profile{
			FilterConfig: &filter.ConfigClient{
				Custom: &filter.ConfigCustom{}, Parental: &filter.ConfigParental{},
				RuleList: &filter.ConfigRuleList{}, SafeBrowsing: &filter.ConfigSafeBrowsing{},
			},
			Access:       access.EmptyProfile{},
			BlockingMode: &dnsmsg.BlockingModeNullIP{},
			Ratelimiter:  rl,
			ID:           p.id,
			DeviceIDs:    []agd.DeviceID{p.dev},
		})
		drecs = append(drecs, &agd.Device{
			Auth: &agd.AuthSettings{PasswordHash: agdpasswd.AllowAuthenticator{}},
			ID:   p.dev,
		})
	}
	db, err := profiledb.New(&profiledb.Config{
		Logger:           slog.New(slog.DiscardHandler),
		Storage:          &c07Storage{profs: precs, devs: drecs},
		ErrColl:          &world.ErrColl{},
		Metrics:          profiledb.EmptyMetrics{},
		CacheFilePath:    "none",
		FullSyncIvl:      time.Hour,
		FullSyncRetryIvl: time.Minute,
	})
	if err != nil {
		panic(err)
	}
	if err = db.Refresh(context.Background()); err != nil {
		panic(err)
	}

	up := &c09Upstream{}
	srvDNS := world.NewServer("dns", agd.ProtoDNS, "198.18.0.1:53", false)
	srvDoT := world.NewServer("dot", agd.ProtoDoT, "198.18.0.1:853", false)
	w, err := world.New(&world.Config{
		Cache:         &dnssvc.CacheConfig{Type: dnssvc.CacheTypeNone},
		Upstream:      up,
		GeoIP:         geo{},
		ProfileDB:     db,
		RateLimit:     bo,
		DeviceDomains: []string{"d.example"},
		Servers:       []*agd.Server{srvDNS, srvDoT},
	})
	if err != nil {
		panic(err)
	}

	m := &c09Model{c: c, keys: map[string]*c09Key{}}

	var pool []netip.Addr
	for _, a := range c09Clients {
		if t.Chance(1, 2, "use-client") {
			pool = append(pool, netip.MustParseAddr(a))
		}
	}
	if len(pool) == 0 {
		pool = []netip.Addr{netip.MustParseAddr(c09Clients[0])}
	}
	// Swarm: which requesters take part.
	var who []*c09ProfSpec
	who = append(who, nil)
	for _, p := range profs {
		if t.Chance(2, 3, "use-profile") {
			who = append(who, p)
		}
	}

	gaps := func(ivl time.Duration) []time.Duration {
		return []time.Duration{
			0, time.Nanosecond, ivl / 2, ivl - time.Nanosecond, ivl + time.Nanosecond, time.Millisecond, ivl / 10,
			time.Second - time.Nanosecond, time.Second + time.Nanosecond, 100 * time.Millisecond,
			c.duration + time.Nanosecond, c.period + time.Nanosecond,
		}
	}

	epoch := time.Date(2000, 1, 1, 0, 0, 0, 0, time.UTC)
	n := t.Range(3, 40, "events")
	for i := 0; i < n; i++ {
		ip := kernel.Pick(t, pool, "client")
		ivl := c.ivl4
		if ip.Is6() {
			ivl = c.ivl6
		}
		if gap := kernel.Pick(t, gaps(ivl), "gap"); gap > 0 {
			time.Sleep(gap)
		}
		prof := kernel.Pick(t, who, "requester")
		plain := !t.Chance(1, 7, "over-dot")
		qt := kernel.Pick(t, []uint16{dns.TypeA, dns.TypeA, dns.TypeTXT, dns.TypeANY}, "qtype")
		size := kernel.Pick(t, []int{60, 60, 99, 130, 250, 399, 1000}, "resp-size")

		req := &dns.Msg{}
		req.Id = uint16(3000 + i)
		req.RecursionDesired = true
		where := kernel.Pick(t, []string{"s", "s", "s", "n", "x"}, "bulk-section")
		req.Question = []dns.Question{{Name: fmt.Sprintf("%s%d.q%d.example.", where, size, i), Qtype: qt, Qclass: dns.ClassINET}}
		wr := &world.Request{Server: srvDNS, Remote: netip.AddrPortFrom(ip, 5353), Msg: req}
		if !plain {
			wr.Server = srvDoT
			wr.Info = &dnsserver.RequestInfo{}
			if prof != nil {
				wr.Info.TLSServerName = string(prof.dev) + ".d.example"
			}
		} else if prof != nil {
			req.SetEdns0(4096, false)
			req.IsEdns0().Option = append(req.IsEdns0().Option, &dns.EDNS0_LOCAL{Code: 65074, Data: []byte(prof.dev)})
		}

		// The profile path does not consult the global limiter, so whether
		// "ANY is refused for everyone" extends to clients under a profile's
		// own limit is not decided here (see DESIGN.md).
		if qt == dns.TypeANY && c.refuseANY && plain && prof != nil && prof.custom {
			qt = dns.TypeA
			req.Question[0].Qtype = qt
		}

		now := time.Now()
		m.uncertain = false
		up.calls = 0
		out, serr := w.Serve(context.Background(), wr)
		if serr != nil {
			s.Failf("C09/error", "rate-limiting stage returned an error", "event %d: %v", i, serr)

			return
		}
		gotDrop := len(out.Msgs) == 0
		respLen := 0
		if !gotDrop {
			respLen = out.Msgs[0].Len()
		}
		wantDrop, why := m.decide(plain, ip, prof, qt, respLen, now)
		name := "anonymous"
		if prof != nil {
			name = string(prof.id)
		}
		s.Logf("event %d: t=%v %s as %s plain=%v qt=%d resp=%dB -> dropped=%v (model: %v, %s)",
			i, now.Sub(epoch), ip, name, plain, qt, respLen, gotDrop, wantDrop, why)
		s.Probe("decision-" + why)
		if m.uncertain {
			s.Probe("boundary-exact-ended-run")

			return
		}
		if gotDrop != wantDrop {
			kind := "query dropped that its limiter admits"
			if wantDrop {
				kind = "query answered that must be dropped (" + why + ")"
			}
			if strings.HasPrefix(why, "profile") || (prof != nil && prof.custom) {
				kind += " [profile with its own limit]"
			}
			s.Failf("C09/mw-decision", kind,
				"event %d at t=%v client %s as %s plain=%v qtype %d: dropped=%v, reference says dropped=%v (%s); config %v prof1{rps %d est %d} prof2{rps %d %v}",
				i, now.Sub(epoch), ip, name, plain, qt, gotDrop, wantDrop, why, c, profs[1].rps, profs[1].respEst, profs[2].rps, profs[2].subnets)

			return
		}
		if gotDrop && up.calls != 0 {
			s.Failf("C09/drop-side-effect", "dropped query was still resolved", "event %d", i)

			return
		}
		if !gotDrop && (len(out.Msgs) != 1 || up.calls != 1) {
			s.Failf("C09/answer-count", "answered query did not produce exactly one response",
				"event %d: upstream calls=%d responses=%d", i, up.calls, len(out.Msgs))

			return
		}
	}
	s.MarkNontrivial()
}
