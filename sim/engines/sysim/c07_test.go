package sysim

import (
	"context"
	"crypto/ecdsa"
	"crypto/elliptic"
	crand "crypto/rand"
	"crypto/tls"
	"crypto/x509"
	"crypto/x509/pkix"
	"fmt"
	"io"
	"log/slog"
	"math/big"
	"math/rand/v2"
	"net"
	"net/netip"
	"sort"
	"strings"
	"sync"
	"time"

	"github.com/AdguardTeam/AdGuardDNS/internal/access"
	"github.com/AdguardTeam/AdGuardDNS/internal/agd"
	"github.com/AdguardTeam/AdGuardDNS/internal/agdpasswd"
	"github.com/AdguardTeam/AdGuardDNS/internal/agdtest"
	"github.com/AdguardTeam/AdGuardDNS/internal/dnsmsg"
	"github.com/AdguardTeam/AdGuardDNS/internal/dnsserver"
	"github.com/AdguardTeam/AdGuardDNS/internal/dnssvc"
	"github.com/AdguardTeam/AdGuardDNS/internal/filter"
	"github.com/AdguardTeam/AdGuardDNS/internal/profiledb"
	"github.com/AdguardTeam/AdGuardDNS/verif/kernel"
	"github.com/AdguardTeam/AdGuardDNS/verif/simnet"
	"github.com/AdguardTeam/AdGuardDNS/verif/verifsim"
	"github.com/AdguardTeam/AdGuardDNS/verif/world"
	"github.com/miekg/dns"
)

// C07: concurrent clients never see each other's answers, policies or
// identities.  N client streams run through one full stack (production
// message cloner as cloner and disposer, ECS cache, pooled request and
// filtering contexts) while the upstream holds requests for random simulated
// times, so that they overlap; every response is compared with the response
// the same request gets alone in a freshly built stack.

type c07Profile struct {
	id   agd.ProfileID
	dev  agd.DeviceID
	mode dnsmsg.BlockingMode
	ttl  time.Duration
}

type c07Req struct {
	client netip.Addr
	prof   *c07Profile // nil = anonymous
	name   string
	qtype  uint16
	qclass uint16
	id     uint16
	resp   *dns.Msg
	err    error
	stream int

	// ecs is the client-subnet option of the request ("" = none).
	ecs string

	// udpSize is the UDP size the request advertises in an OPT record of
	// its own (0 = no such wish: an OPT record only when an option needs
	// one).  sentSize is what went out (0 = no OPT record); c08 is what the
	// judgement of the response's size and OPT record (C08, as a part of
	// which the streams also run) has found wrong on the wire.
	udpSize  uint16
	sentSize uint16
	c08      string

	// padding and keepAlive: the request carries these options.
	padding, keepAlive bool
}

type c07Upstream struct {
	mu    sync.Mutex
	rng   *rand.Rand
	delay bool
}

func (u *c07Upstream) ServeDNS(ctx context.Context, rw dnsserver.ResponseWriter, req *dns.Msg) error {
	if u.delay {
		u.mu.Lock()
		d := []time.Duration{0, time.Millisecond, 5 * time.Millisecond, 50 * time.Millisecond}[u.rng.IntN(4)]
		u.mu.Unlock()
		if d > 0 {
			time.Sleep(d)
		}
	}

	q := req.Question[0]
	resp := (&dns.Msg{}).SetReply(req)
	resp.RecursionAvailable = true
	h := uint32(0)
	for _, c := range strings.ToLower(q.Name) {
		h = h*31 + uint32(c)
	}
	big := strings.Contains(strings.ToLower(q.Name), "big")
	switch {
	case big && q.Qtype == dns.TypeA:
		// About a thousand octets.
		for i := 0; i < 60; i++ {
			resp.Answer = append(resp.Answer, &dns.A{
				Hdr: dns.RR_Header{Name: q.Name, Rrtype: dns.TypeA, Class: dns.ClassINET, Ttl: 300},
				A:   []byte{10, byte(h >> 8), byte(h), byte(i)},
			})
		}
	case big && q.Qtype == dns.TypeTXT:
		for i := 0; i < 5; i++ {
			resp.Answer = append(resp.Answer, &dns.TXT{
				Hdr: dns.RR_Header{Name: q.Name, Rrtype: dns.TypeTXT, Class: dns.ClassINET, Ttl: 300},
				Txt: []string{strings.Repeat(string(rune('a'+i)), 180)},
			})
		}
	}
	switch q.Qtype {
	case dns.TypeA:
		for i := 0; i < 1+int(h%3) && !big; i++ {
			resp.Answer = append(resp.Answer, &dns.A{
				Hdr: dns.RR_Header{Name: q.Name, Rrtype: dns.TypeA, Class: dns.ClassINET, Ttl: 300},
				A:   []byte{10, byte(h >> 16), byte(h >> 8), byte(i)},
			})
		}
	case dns.TypeHTTPS:
		hs := &dns.HTTPS{SVCB: dns.SVCB{Hdr: dns.RR_Header{Name: q.Name, Rrtype: dns.TypeHTTPS, Class: dns.ClassINET, Ttl: 300}, Priority: 1, Target: "."}}
		var hint []net6
		_ = hint
		ips := &dns.SVCBIPv4Hint{}
		for i := 0; i < 1+int(h%7); i++ {
			ips.Hint = append(ips.Hint, []byte{10, byte(h >> 8), byte(h), byte(i)})
		}
		hs.Value = append(hs.Value, &dns.SVCBAlpn{Alpn: []string{"h2"}}, ips)
		resp.Answer = append(resp.Answer, hs)
	case dns.TypeTXT:
		if !big {
			resp.Answer = append(resp.Answer, &dns.TXT{
				Hdr: dns.RR_Header{Name: q.Name, Rrtype: dns.TypeTXT, Class: dns.ClassINET, Ttl: 300},
				Txt: []string{fmt.Sprintf("txt-for-%s", strings.ToLower(q.Name))},
			})
		}
	}

	// As a real upstream reply: unpacked from the wire.
	b, err := resp.Pack()
	if err != nil {
		return err
	}
	wire := &dns.Msg{}
	if err = wire.Unpack(b); err != nil {
		return err
	}

	return rw.WriteMsg(ctx, req, wire)
}

type net6 = []byte

func c07World(profs []*c07Profile, up dnsserver.Handler, cacheOn bool) (w *world.World, srv *agd.Server) {
	return c07WorldProto(profs, up, cacheOn, agd.ProtoDNS)
}

// c07WorldProto is c07World with a server of protocol proto.
func c07WorldProto(profs []*c07Profile, up dnsserver.Handler, cacheOn bool, proto agd.Protocol) (w *world.World, srv *agd.Server) {
	var precs []*agd.Profile
	var drecs []*agd.Device
	for _, p := range profs {
		precs = append(precs, &agd.Profile{
			FilterConfig: &filter.ConfigClient{
				Custom: &filter.ConfigCustom{}, Parental: &filter.ConfigParental{},
				RuleList: &filter.ConfigRuleList{Enabled: true}, SafeBrowsing: &filter.ConfigSafeBrowsing{},
			},
			Access:              access.EmptyProfile{},
			BlockingMode:        p.mode,
			Ratelimiter:         agd.GlobalRatelimiter{},
			ID:                  p.id,
			DeviceIDs:           []agd.DeviceID{p.dev},
			FilteredResponseTTL: p.ttl,
			FilteringEnabled:    true,
		})
		drecs = append(drecs, &agd.Device{
			Auth: &agd.AuthSettings{PasswordHash: agdpasswd.AllowAuthenticator{}},
			ID:   p.dev, FilteringEnabled: true,
		})
	}

	db, err := profiledb.New(&profiledb.Config{
		Logger:           slog.New(slog.DiscardHandler),
		Storage:          &c07Storage{profs: precs, devs: drecs},
		ErrColl:          &world.ErrColl{},
		Metrics:          profiledb.EmptyMetrics{},
		CacheFilePath:    "none",
		FullSyncIvl:      time.Hour,
		FullSyncRetryIvl: time.Minute,
	})
	if err != nil {
		panic(err)
	}
	if err = db.Refresh(context.Background()); err != nil {
		panic(err)
	}

	// Rewritten requests already handed out by this stack's filter: as a
	// filter with a result cache may (the hash-prefix filters did so until
	// 18748ec), the stub gives later requesters of the
	// same rewrite a copy with an ID of its own.
	var rwMu sync.Mutex
	rwSeen := map[string]uint16{}
	rwFirst := map[string]*dns.Msg{}
	flt := &agdtest.Filter{
		OnFilterRequest: func(_ context.Context, req *filter.Request) (filter.Result, error) {
			switch {
			case strings.HasPrefix(req.Host, "reqblock"):
				return &filter.ResultBlocked{List: "list_req", Rule: filter.RuleText("||" + req.Host + "^")}, nil
			case strings.HasPrefix(req.Host, "cnamerw"):
				// A CNAME rewrite, as rule lists produce it: the request is
				// resolved under another name.
				modReq := dnsmsg.Clone(req.DNS)
				modReq.Question[0].Name = "target-of-" + dns.Fqdn(req.Host)
				rwMu.Lock()
				key := fmt.Sprintf("%s/%d", req.Host, req.QType)
				if k, again := rwSeen[key]; again {
					// A copy of what the first requester's query was
					// rewritten to, OPT record and all.
					modReq = dnsmsg.Clone(rwFirst[key])
					modReq.Id = 40000 + k
				} else {
					rwFirst[key] = dnsmsg.Clone(modReq)
				}
				rwSeen[key]++
				rwMu.Unlock()

				return &filter.ResultModifiedRequest{Msg: modReq, List: "list_cn", Rule: "cname-rule"}, nil
			case strings.HasPrefix(req.Host, "rewrite"):
				resp, rerr := req.Messages.NewBlockedRespIP(req.DNS, netip.MustParseAddr("192.0.2.55"))
				if rerr != nil {
					return nil, nil
				}

				return &filter.ResultModifiedResponse{Msg: resp, List: "list_rw", Rule: "rewrite-rule"}, nil
			}

			return nil, nil
		},
		OnFilterResponse: func(_ context.Context, resp *filter.Response) (filter.Result, error) {
			if strings.HasPrefix(strings.ToLower(resp.DNS.Question[0].Name), "respblock") {
				return &filter.ResultBlocked{List: "list_resp", Rule: "resp-rule"}, nil
			}

			return nil, nil
		},
	}

	srv = world.NewServer("dns", proto, "198.18.0.1:53", false)
	cache := &dnssvc.CacheConfig{Type: dnssvc.CacheTypeNone}
	if cacheOn {
		cache = &dnssvc.CacheConfig{Type: dnssvc.CacheTypeECS, ECSCount: 100, NoECSCount: 100}
	}
	w, err = world.New(&world.Config{
		Cache:     cache,
		Upstream:  up,
		GeoIP:     geo{},
		ProfileDB: db,
		Cloner:    dnsmsg.NewCloner(dnsmsg.EmptyClonerStat{}),
		FilterStorage: &agdtest.FilterStorage{
			OnForConfig: func(context.Context, filter.Config) filter.Interface { return flt },
			OnHasListID: func(filter.ID) bool { return true },
		},
		CacheManager: &world.CacheManager{},
		Servers:      []*agd.Server{srv},
	})
	if err != nil {
		panic(err)
	}

	return w, srv
}

type c07Storage struct {
	profs []*agd.Profile
	devs  []*agd.Device
}

func (st *c07Storage) CreateAutoDevice(context.Context, *profiledb.StorageCreateAutoDeviceRequest) (*profiledb.StorageCreateAutoDeviceResponse, error) {
	return nil, fmt.Errorf("not simulated")
}

func (st *c07Storage) Profiles(context.Context, *profiledb.StorageProfilesRequest) (*profiledb.StorageProfilesResponse, error) {
	return &profiledb.StorageProfilesResponse{SyncTime: time.Now(), Profiles: st.profs, Devices: st.devs}, nil
}

func c07Serve(w *world.World, srv *agd.Server, r *c07Req, dispose bool) (resp *dns.Msg, err error) {
	req := &dns.Msg{}
	req.Id = r.id
	req.RecursionDesired = true
	req.Question = []dns.Question{{Name: r.name, Qtype: r.qtype, Qclass: r.qclass}}
	if r.prof != nil {
		req.SetEdns0(1232, false)
		req.IsEdns0().Option = append(req.IsEdns0().Option, &dns.EDNS0_LOCAL{Code: 65074, Data: []byte(r.prof.dev)})
	}
	addECS(req, r.ecs)
	out, err := w.Serve(context.Background(), &world.Request{
		Server: srv, Remote: netip.AddrPortFrom(r.client, 5353), Msg: req, Dispose: dispose,
	})
	if out != nil && len(out.Msgs) == 1 {
		resp = out.Msgs[0]
	}

	return resp, err
}

func c07Describe(m *dns.Msg, withTTL bool) string {
	if m == nil {
		return "<no response>"
	}
	sec := func(rrs []dns.RR) (out []string) {
		for _, rr := range rrs {
			c := dns.Copy(rr)
			if !withTTL {
				c.Header().Ttl = 0
			}
			// The owner name of a cached record keeps the spelling of the
			// request that populated the cache; names compare without case.
			// (The question section must echo the requester's own spelling.)
			c.Header().Name = strings.ToLower(c.Header().Name)
			s := c.String()
			// The request ID inside debug records differs by construction.
			if strings.Contains(s, "req-id") || strings.Contains(s, "elapsed") {
				continue
			}
			out = append(out, s)
		}

		return out
	}
	q := ""
	if len(m.Question) == 1 {
		q = fmt.Sprintf("%s/%d/%d", m.Question[0].Name, m.Question[0].Qtype, m.Question[0].Qclass)
	}

	return fmt.Sprintf("id=%d rcode=%d q=%s an=%v ns=%v ex=%v", m.Id, m.Rcode, q, sec(m.Answer), sec(m.Ns), sec(m.Extra))
}

// runC08 runs the streams through the real plain-DNS server on behalf of C08:
// requests with and without OPT records and with various advertised sizes,
// answers of about a thousand octets, and what arrives on the wire is judged
// by size and OPT record.
func runC08(s *kernel.Sim, _ string) { runStreams(s, "C08", "servers") }

func runC07(s *kernel.Sim, cfg string) { runStreams(s, "C07", cfg) }

func runStreams(s *kernel.Sim, prop, cfg string) {
	t := s.T
	modes := []dnsmsg.BlockingMode{
		&dnsmsg.BlockingModeNullIP{},
		&dnsmsg.BlockingModeCustomIP{IPv4: []netip.Addr{netip.MustParseAddr("198.51.100.77")}, IPv6: []netip.Addr{netip.MustParseAddr("2001:db8::77")}},
		&dnsmsg.BlockingModeNXDOMAIN{},
		&dnsmsg.BlockingModeREFUSED{},
	}
	var profs []*c07Profile
	for i := 0; i < 3; i++ {
		profs = append(profs, &c07Profile{
			id:   agd.ProfileID(fmt.Sprintf("prof%d", i)),
			dev:  agd.DeviceID(fmt.Sprintf("dev%d", i)),
			mode: kernel.Pick(t, modes, "mode"),
			ttl:  kernel.Pick(t, []time.Duration{10 * time.Second, 60 * time.Second, 1234 * time.Second}, "ttl"),
		})
	}

	up := &c07Upstream{rng: rand.New(rand.NewPCG(uint64(t.Choose(1<<30, "up-seed")), 7)), delay: cfg != "sequential"}
	w, srv := c07World(profs, up, true)
	if prop == "C08" {
		// Behind a DoT server: on plain DNS the rate-limiting stage writes
		// every response itself, with the query it received; on the
		// encrypted transports what the inner stages hand to the response
		// writer is what the server works with.
		w, srv = c07WorldProto(profs, up, true, agd.ProtoDoT)
	}

	nStreams := t.Range(1, 6, "streams")
	if cfg == "sequential" {
		nStreams = 1
	}
	var all []*c07Req
	streams := make([][]*c07Req, nStreams)
	seq := 0
	for si := range streams {
		n := t.Range(3, 16, "requests")
		for j := 0; j < n; j++ {
			seq++
			r := &c07Req{
				client: netip.MustParseAddr(fmt.Sprintf("203.0.113.%d", 10+si)),
				id:     uint16(2000 + seq),
				qtype:  kernel.Pick(t, []uint16{dns.TypeA, dns.TypeA, dns.TypeHTTPS, dns.TypeTXT, dns.TypeAAAA}, "qtype"),
				qclass: dns.ClassINET,
				stream: si,
			}
			if t.Chance(2, 3, "with-profile") {
				r.prof = kernel.Pick(t, profs, "profile")
			}
			if t.Chance(1, 6, "debug-query") {
				r.qclass = dns.ClassCHAOS
			}
			if t.Chance(1, 5, "client-subnet") {
				r.ecs = kernel.Pick(t, []string{"192.0.2.0/24", "198.51.100.0/24", "0.0.0.0/0", "2001:db8:a::/48"}, "ecs")
			}
			kinds := 7
			if prop == "C08" {
				r.udpSize = kernel.Pick(t, []uint16{0, 0, 512, 600, 1232, 4096}, "udp-size")
				r.padding = r.udpSize > 0 && t.Chance(1, 3, "padding")
				r.keepAlive = r.udpSize > 0 && t.Chance(1, 4, "keep-alive")
				r.qtype = kernel.Pick(t, []uint16{dns.TypeA, dns.TypeTXT}, "qtype-of-size")
				kinds = 9
			}
			switch t.Choose(kinds, "name-kind") {
			case 7:
				r.name = fmt.Sprintf("cnamerw-big-%d.example.", t.Choose(2, "shared"))
			case 8:
				r.name = fmt.Sprintf("big-%d.example.", t.Choose(3, "shared"))
			case 6:
				r.name = fmt.Sprintf("cnamerw-%d.example.", t.Choose(3, "shared"))
			case 0:
				r.name = fmt.Sprintf("reqblock-%d.example.", t.Choose(3, "shared"))
			case 1:
				r.name = fmt.Sprintf("respblock-%d.example.", t.Choose(3, "shared"))
			case 2:
				// The stub filter rewrites to an IPv4 address, which only an
				// A question can carry.
				r.name = fmt.Sprintf("rewrite-%d.example.", t.Choose(3, "shared"))
				r.qtype = dns.TypeA
			case 3:
				r.name = fmt.Sprintf("shared-%d.example.", t.Choose(4, "shared"))
			default:
				r.name = fmt.Sprintf("unique-%d.example.", seq)
			}
			if t.Chance(1, 4, "mixed-case") {
				// Case randomisation of the question name: the response must
				// echo the requester's own spelling.
				b := []byte(r.name)
				for k := range b {
					if b[k] >= 'a' && b[k] <= 'z' && t.Chance(1, 2, "upper") {
						b[k] -= 'a' - 'A'
					}
				}
				r.name = string(b)
			}
			streams[si] = append(streams[si], r)
			all = append(all, r)
		}
	}

	// ---- the concurrent run ----
	// At the yields inserted into the ECS cache a stream lets every other
	// stream that can run go first (one nanosecond of simulated sleep).
	verifsim.Install(&verifsim.Hooks{Yield: func(string) { time.Sleep(time.Nanosecond) }})
	defer verifsim.Install(nil)
	maxUDP := uint16(0)
	if cfg == "servers" {
		if prop == "C08" {
			maxUDP = kernel.Pick(t, []uint16{1232, 4096}, "max-udp-size")
		}
		c07ThroughServers(s, w, srv, streams, maxUDP)
	}
	if prop == "C08" {
		for _, r := range all {
			s.Logf("stream %d: %s/%d id=%d opt=%d -> %s", r.stream, r.name, r.qtype, r.id, r.sentSize, c07Describe(r.resp, false))
			if r.resp != nil && r.resp.Len() > 512 {
				s.Probe("full-stack-answer-over-512")
			}
			if r.resp != nil && r.resp.Truncated {
				s.Probe("full-stack-answer-truncated")
			}
			if r.c08 != "" {
				s.Failf("C08/full-stack", "through the whole handler stack: "+strings.SplitN(r.c08, ": ", 2)[0],
					"stream %d, %s/%d id=%d (OPT size sent %d, server maximum %d): %s", r.stream, r.name, r.qtype, r.id, r.sentSize, maxUDP, r.c08)

				return
			}
		}
		s.MarkNontrivial()

		return
	}
	var wg sync.WaitGroup
	for si := range streams {
		if cfg == "servers" {
			break
		}
		reqs := streams[si]
		pause := rand.New(rand.NewPCG(uint64(t.Choose(1<<30, "stream-seed")), uint64(si)))
		wg.Add(1)
		go func() {
			defer wg.Done()
			for _, r := range reqs {
				if d := []time.Duration{0, 0, time.Millisecond, 20 * time.Millisecond}[pause.IntN(4)]; d > 0 && cfg != "sequential" {
					time.Sleep(d)
				}
				r.resp, r.err = c07Serve(w, srv, r, true)
			}
		}()
	}
	wg.Wait()

	// ---- the reference: every request alone in a fresh stack ----
	refUp := &c07Upstream{}
	for _, r := range all {
		rw, rsrv := c07World(profs, refUp, true)
		want, werr := c07Serve(rw, rsrv, r, false)
		who := "anonymous"
		if r.prof != nil {
			who = string(r.prof.id)
		}
		s.Logf("stream %d: %s asks %s/%d/%d id=%d -> %s", r.stream, who, r.name, r.qtype, r.qclass, r.id, c07Describe(r.resp, true))
		if (r.err != nil) != (werr != nil) {
			s.Failf("C07/error-differs", "a request fails under concurrency but not alone (or vice versa)", "%s: %v vs %v", r.name, r.err, werr)

			return
		}

		if cfg == "servers" {
			// The servers add and fix up the OPT record of a response; the
			// reference is taken in front of them.
			stripOPT(r.resp)
			stripOPT(want)
			if r.resp == nil && want != nil {
				s.Failf("C07/no-response", "a request got no response under concurrency", "stream %d, %s asks %s/%d id=%d", r.stream, who, r.name, r.qtype, r.id)

				return
			}
		}
		if r.resp != nil && r.resp.Id != r.id {
			s.Failf("C07/foreign-data", "response carries an ID that is not its request's",
				"stream %d, %s asks %s/%d id=%d: response id %d", r.stream, who, r.name, r.qtype, r.id, r.resp.Id)

			return
		}
		got, exp := c07Describe(r.resp, false), c07Describe(want, false)
		if got != exp {
			kind := "response differs from the one the same request gets alone"
			switch {
			case r.resp != nil && want != nil && r.resp.Id != want.Id:
				kind = "response carries another request's ID"
			case r.resp != nil && want != nil && len(r.resp.Question) == 1 && len(want.Question) == 1 && r.resp.Question[0] != want.Question[0]:
				kind = "response carries another request's question"
			case strings.HasPrefix(r.name, "reqblock") || strings.HasPrefix(r.name, "respblock") || strings.HasPrefix(r.name, "rewrite"):
				kind = "blocked answer is not in the requester's own blocking mode"
			}
			s.Failf("C07/foreign-data", kind,
				"stream %d, %s asks %s/%d/%d:\n concurrent: %s\n alone:      %s", r.stream, who, r.name, r.qtype, r.qclass, got, exp)

			return
		}

		// TTLs: filtered answers carry the profile's TTL exactly; resolved
		// answers may have aged in the cache.
		if r.resp != nil && want != nil {
			gt, wt := ttlsOf(r.resp), ttlsOf(want)
			for i := range gt {
				if i < len(wt) && gt[i] > wt[i] {
					s.Failf("C07/foreign-ttl", "answer carries a TTL larger than the requester's own",
						"stream %d, %s asks %s: ttls %v, alone %v", r.stream, who, r.name, gt, wt)

					return
				}
			}
			filtered := strings.HasPrefix(r.name, "reqblock") || strings.HasPrefix(r.name, "respblock") || strings.HasPrefix(r.name, "rewrite")
			if filtered && fmt.Sprint(gt) != fmt.Sprint(wt) {
				s.Failf("C07/foreign-ttl", "filtered answer does not carry the requester's own TTL",
					"stream %d, %s asks %s: ttls %v, alone %v", r.stream, who, r.name, gt, wt)

				return
			}
		}
	}
	s.MarkNontrivial()
}

func ttlsOf(m *dns.Msg) (ttls []uint32) {
	var rrs []string
	byS := map[string]uint32{}
	for _, sec := range [][]dns.RR{m.Answer, m.Ns} {
		for _, rr := range sec {
			c := dns.Copy(rr)
			ttl := c.Header().Ttl
			c.Header().Ttl = 0
			rrs = append(rrs, c.String())
			byS[c.String()] = ttl
		}
	}
	sort.Strings(rrs)
	for _, k := range rrs {
		ttls = append(ttls, byS[k])
	}

	return ttls
}

func stripOPT(m *dns.Msg) {
	if m == nil {
		return
	}
	var ex []dns.RR
	for _, rr := range m.Extra {
		if _, ok := rr.(*dns.OPT); !ok {
			ex = append(ex, rr)
		}
	}
	m.Extra = ex
}

// c07ThroughServers runs the streams as clients of a real plain-DNS server
// (UDP and TCP) on the simulated network, with the handler stack behind it and
// the stack's cloner as the server's disposer: responses are released for
// reuse by the server right after they are written.
func c07ThroughServers(s *kernel.Sim, w *world.World, srv *agd.Server, streams [][]*c07Req, maxUDP uint16) {
	n := simnet.New(s)
	h := w.Handlers[dnssvc.HandlerKey{Server: srv, ServerGroup: w.Group}]
	dnsConf := dnsserver.ConfigDNS{
		ConfigBase: dnsserver.ConfigBase{
			Name:         string(srv.Name),
			Addr:         "198.18.0.1:53",
			Handler:      h,
			Disposer:     w.Cloner,
			ListenConfig: n,
		},
		ReadTimeout:    2 * time.Second,
		WriteTimeout:   2 * time.Second,
		TCPIdleTimeout: 10 * time.Second,
		MaxUDPRespSize: maxUDP,
	}
	overTLS := srv.Protocol == agd.ProtoDoT
	var ds interface {
		Start(ctx context.Context) error
		Shutdown(ctx context.Context) error
	}
	if overTLS {
		ds = dnsserver.NewServerTLS(dnsserver.ConfigTLS{
			TLSConfig: &tls.Config{Certificates: []tls.Certificate{simCert()}, MinVersion: tls.VersionTLS12},
			ConfigDNS: dnsConf,
		})
	} else {
		ds = dnsserver.NewServerDNS(dnsConf)
	}
	if err := ds.Start(context.Background()); err != nil {
		panic(err)
	}
	defer func() {
		ctx, cancel := context.WithTimeout(context.Background(), 5*time.Second)
		defer cancel()
		_ = ds.Shutdown(ctx)
	}()

	t := s.T
	var wg sync.WaitGroup
	for si := range streams {
		reqs := streams[si]
		rng := rand.New(rand.NewPCG(uint64(t.Choose(1<<30, "stream-seed")), uint64(si)))
		overTCP := rng.IntN(3) == 0 || overTLS
		wg.Add(1)
		go func() {
			defer wg.Done()
			byID := map[uint16]*c07Req{}
			pack := func(r *c07Req) []byte {
				req := &dns.Msg{}
				req.Id = r.id
				req.RecursionDesired = true
				req.Question = []dns.Question{{Name: r.name, Qtype: r.qtype, Qclass: r.qclass}}
				if r.udpSize > 0 {
					req.SetEdns0(r.udpSize, false)
					if r.padding {
						req.IsEdns0().Option = append(req.IsEdns0().Option, &dns.EDNS0_PADDING{Padding: make([]byte, 7)})
					}
					if r.keepAlive {
						req.IsEdns0().Option = append(req.IsEdns0().Option, &dns.EDNS0_TCP_KEEPALIVE{Code: dns.EDNS0TCPKEEPALIVE})
					}
				}
				if r.prof != nil {
					if req.IsEdns0() == nil {
						req.SetEdns0(1232, false)
					}
					req.IsEdns0().Option = append(req.IsEdns0().Option, &dns.EDNS0_LOCAL{Code: 65074, Data: []byte(r.prof.dev)})
				}
				addECS(req, r.ecs)
				if opt := req.IsEdns0(); opt != nil {
					r.sentSize = opt.UDPSize()
				}
				b, err := req.Pack()
				if err != nil {
					panic(err)
				}
				byID[r.id] = r

				return b
			}
			take := func(b []byte) {
				m := &dns.Msg{}
				if err := m.Unpack(b); err != nil {
					return
				}
				if r := byID[m.Id]; r != nil && r.resp == nil {
					r.resp = m
					r.c08 = judgeWire(r, m, len(b), overTCP, maxUDP)
				} else if r == nil {
					// An ID this client never used: keep it for the report.
					reqs[0].err = fmt.Errorf("response with foreign id %d: %s", m.Id, c07Describe(m, true))
				}
			}
			pause := func() {
				if d := []time.Duration{0, 0, 0, time.Millisecond, 20 * time.Millisecond}[rng.IntN(5)]; d > 0 {
					time.Sleep(d)
				}
			}
			local := n.ClientAddr(reqs[0].client)
			if overTCP {
				var c net.Conn
				c, err := n.Dial("198.18.0.1:53", local)
				if err != nil {
					panic(err)
				}
				defer c.Close()
				if overTLS {
					tc := tls.Client(c, &tls.Config{InsecureSkipVerify: true, ServerName: "dns.sim.test", MinVersion: tls.VersionTLS12}) //nolint:gosec
					if herr := tc.Handshake(); herr != nil {
						return
					}
					c = tc
				}
				for _, r := range reqs {
					pause()
					b := pack(r)
					_, _ = c.Write(append([]byte{byte(len(b) >> 8), byte(len(b))}, b...))
				}
				for range reqs {
					_ = c.SetReadDeadline(time.Now().Add(5 * time.Second))
					var lb [2]byte
					if _, err = io.ReadFull(c, lb[:]); err != nil {
						return
					}
					b := make([]byte, int(lb[0])<<8|int(lb[1]))
					if _, err = io.ReadFull(c, b); err != nil {
						return
					}
					take(b)
				}

				return
			}
			pc, err := n.DialPacket(local)
			if err != nil {
				panic(err)
			}
			defer pc.Close()
			dst := net.UDPAddrFromAddrPort(netip.MustParseAddrPort("198.18.0.1:53"))
			for _, r := range reqs {
				pause()
				_, _ = pc.WriteTo(pack(r), dst)
			}
			buf := make([]byte, 65535)
			for range reqs {
				_ = pc.SetReadDeadline(time.Now().Add(5 * time.Second))
				k, _, rerr := pc.ReadFrom(buf)
				if rerr != nil {
					return
				}
				take(append([]byte(nil), buf[:k]...))
			}
		}()
	}
	wg.Wait()
	s.Probe("streams-through-real-servers")
}

// judgeWire is C08's judgement of one response as it arrived: its size over
// UDP, and its OPT record.
func judgeWire(r *c07Req, m *dns.Msg, size int, overTCP bool, maxUDP uint16) (bad string) {
	if maxUDP == 0 {
		return ""
	}
	if !overTCP {
		limit := max(512, int(min(r.sentSize, maxUDP)))
		if size > limit {
			return fmt.Sprintf("UDP response larger than the limit: %d octets on the wire, limit %d (tc=%v, %d answers)", size, limit, m.Truncated, len(m.Answer))
		}
	}
	if m.Truncated && len(m.Answer) > 0 {
		return fmt.Sprintf("truncated response keeps answers: %d", len(m.Answer))
	}
	opt := m.IsEdns0()
	if r.sentSize > 0 {
		switch {
		case opt == nil:
			return "query with an OPT record got a response without one: -"
		case opt.UDPSize() != r.sentSize:
			return fmt.Sprintf("response OPT does not carry the client's UDP size: %d", opt.UDPSize())
		case opt.Version() != 0:
			return fmt.Sprintf("response OPT version is not 0: %d", opt.Version())
		}
	}
	if opt != nil {
		for _, o := range opt.Option {
			switch o.(type) {
			case *dns.EDNS0_PADDING:
				if !r.padding {
					return "padding although the client sent no padding option: -"
				}
			case *dns.EDNS0_TCP_KEEPALIVE:
				if !r.keepAlive {
					return "keep-alive option returned to a client that did not send it: -"
				}
			}
		}
	}

	return ""
}

// simCert is a certificate for the DoT server of the C08 part (one per
// process, valid at bubble time).
var simCert = sync.OnceValue(func() tls.Certificate {
	key, err := ecdsa.GenerateKey(elliptic.P256(), crand.Reader)
	if err != nil {
		panic(err)
	}
	tmpl := &x509.Certificate{
		SerialNumber:          big.NewInt(1),
		Subject:               pkix.Name{Organization: []string{"verif sim"}},
		NotBefore:             time.Date(1990, 1, 1, 0, 0, 0, 0, time.UTC),
		NotAfter:              time.Date(2100, 1, 1, 0, 0, 0, 0, time.UTC),
		KeyUsage:              x509.KeyUsageDigitalSignature | x509.KeyUsageCertSign,
		ExtKeyUsage:           []x509.ExtKeyUsage{x509.ExtKeyUsageServerAuth},
		BasicConstraintsValid: true,
		IsCA:                  true,
		DNSNames:              []string{"dns.sim.test"},
	}
	der, err := x509.CreateCertificate(crand.Reader, tmpl, tmpl, &key.PublicKey, key)
	if err != nil {
		panic(err)
	}

	return tls.Certificate{Certificate: [][]byte{der}, PrivateKey: key}
})

// addECS gives the request a client-subnet option.
func addECS(req *dns.Msg, ecs string) {
	if ecs == "" {
		return
	}
	p := netip.MustParsePrefix(ecs)
	opt := req.IsEdns0()
	if opt == nil {
		req.SetEdns0(1232, false)
		opt = req.IsEdns0()
	}
	fam := uint16(1)
	if p.Addr().Is6() {
		fam = 2
	}
	opt.Option = append(opt.Option, &dns.EDNS0_SUBNET{
		Code: dns.EDNS0SUBNET, Family: fam, SourceNetmask: uint8(p.Bits()), Address: p.Addr().AsSlice(),
	})
}
