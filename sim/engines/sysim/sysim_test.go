// Package sysim simulates the whole request pipeline (properties C03, C10 and
// C15): the real dnssvc handler stack (initial, rate-limit/access/device
// finding, pre-service, main filtering middleware, pre-upstream, ECS cache)
// with the real profile database, real access managers and real device
// finder, over recording fakes for everything downstream.  Requests arrive as
// a transport would deliver them (server, local and remote address, TLS
// server name, URL, userinfo, EDNS options).
package sysim

import (
	"context"
	"errors"
	"fmt"
	"log/slog"
	"net"
	"net/netip"
	"net/url"
	"strings"
	"testing"
	"time"

	"github.com/AdguardTeam/AdGuardDNS/internal/access"
	"github.com/AdguardTeam/AdGuardDNS/internal/agd"
	"github.com/AdguardTeam/AdGuardDNS/internal/agdpasswd"
	"github.com/AdguardTeam/AdGuardDNS/internal/agdtest"
	"github.com/AdguardTeam/AdGuardDNS/internal/dnsmsg"
	"github.com/AdguardTeam/AdGuardDNS/internal/dnsserver"
	"github.com/AdguardTeam/AdGuardDNS/internal/dnssvc"
	"github.com/AdguardTeam/AdGuardDNS/internal/filter"
	"github.com/AdguardTeam/AdGuardDNS/internal/geoip"
	"github.com/AdguardTeam/AdGuardDNS/internal/profiledb"
	"github.com/AdguardTeam/AdGuardDNS/internal/querylog"
	"github.com/AdguardTeam/AdGuardDNS/verif/kernel"
	"github.com/AdguardTeam/AdGuardDNS/verif/world"
	"github.com/AdguardTeam/golibs/netutil"
	"github.com/miekg/dns"
	"golang.org/x/crypto/bcrypt"
)

const deviceDomain = "d.sim.test"

// ---- universe ----

type devSpec struct {
	id       agd.DeviceID
	prof     *profSpec
	attached bool
	authOn   bool
	dohOnly  bool
	password string // "" = no password set (allow-all authenticator)

	// badHash, if not nil, is stored in place of the hash of password: bytes
	// no password hashes to (not a bcrypt hash at all, or a damaged one).
	badHash   []byte
	linkedIP  netip.Addr
	dedicated netip.Addr
	humanID   string // human-readable ID, in the case the device was named with
	auto      bool   // created on demand through a human-readable ID
	rec       *agd.Device
}

type profSpec struct {
	id        agd.ProfileID
	deleted   bool
	qlog      bool
	iplog     bool
	access    *access.ProfileConfig
	rec       *agd.Profile
	filtering bool
	autoDevs  bool
	mode      dnsmsg.BlockingMode
}

var (
	bcryptRight []byte
	// bcryptSecond is the hash of the password a device gets when its
	// password is changed.
	bcryptSecond []byte
)

func init() {
	var err error
	bcryptRight, err = bcrypt.GenerateFromPassword([]byte("right"), 4)
	if err != nil {
		panic(err)
	}
	bcryptSecond, err = bcrypt.GenerateFromPassword([]byte("second"), 4)
	if err != nil {
		panic(err)
	}
}

type universe struct {
	profs []*profSpec
	devs  []*devSpec

	// metricUsed is set once a run has asked an Android metric name.
	metricUsed bool

	// pwDev has just had its password changed from pwOld; pwLeft requests
	// may still be steered to it, with the old password and with the new.
	pwDev  *devSpec
	pwOld  string
	pwLeft int

	// asked are the questions asked so far (for repeats).
	asked []*request

	// visible is the number of devices that existed before the request under
	// judgement was served.
	visible int

	// autoCreated counts the calls to the backend that created a device.
	autoCreated int
}

// Addresses with a meaning.
var (
	globalBlockedNet = netip.MustParsePrefix("192.0.2.0/25")
	// More globally blocked networks, of both families and of lengths that
	// code might take for something special: a single address of each
	// family, an IPv6 network of 32 bits, odd lengths.
	globalBlockedNets = []netip.Prefix{
		globalBlockedNet,
		netip.MustParsePrefix("203.0.113.99/32"),
		netip.MustParsePrefix("2001:db8:bad::/48"),
		netip.MustParsePrefix("2001:dead::/32"),
		netip.MustParsePrefix("2001:db8:1::7/128"),
		netip.MustParsePrefix("198.51.101.64/27"),
	}
	profBlockedNet = netip.MustParsePrefix("198.51.100.0/24")
	profAllowedNet = netip.MustParsePrefix("198.51.100.128/25")
	clientAddrs    = []string{
		"203.0.113.7",                         // plain
		"192.0.2.5",                           // globally blocked subnet
		"192.0.2.200",                         // outside the blocked /25
		"198.51.100.9",                        // profile-blocked subnet
		"198.51.100.200",                      // inside the profile-allowed /25 of the blocked /24
		"100.70.0.1",                          // ASN 64500 (blocked for some profiles)
		"100.71.0.1",                          // ASN 64501 (allowed for some profiles)
		"10.10.0.1", "10.10.0.2", "10.10.0.3", // linked IPs
		// In and next to the further globally blocked networks.
		"203.0.113.99", "203.0.113.98", "2001:db8:bad::1", "2001:db8:bae::1", "2001:dead::", "2001:dead:1::5",
		"2001:deae::1", "2001:db8:1::7", "2001:db8:1::8", "198.51.101.70", "198.51.101.100",
	}
	dedicatedIPs = []string{"198.18.10.11", "198.18.10.12", "198.18.10.77"}
)

func asnOf(ip netip.Addr) geoip.ASN {
	switch {
	case netip.MustParsePrefix("100.70.0.0/16").Contains(ip):
		return 64500
	case netip.MustParsePrefix("100.71.0.0/16").Contains(ip):
		return 64501
	case ip == netip.MustParseAddr("198.51.100.200"):
		// Inside a profile's allowed subnet, but of a blocked ASN.
		return 64500
	case ip == netip.MustParseAddr("198.51.100.9"):
		// Inside a profile's blocked subnet, but of an allowed ASN.
		return 64501
	}

	return 0
}

// asnList returns must and some autonomous systems no client belongs to, in
// an order the tape chooses (the backend does not promise any).
func asnList(t *kernel.Tape, must []geoip.ASN) (l []geoip.ASN) {
	l = append(l, must...)
	for _, a := range []geoip.ASN{64496, 64499, 64510, 7, 4200000000} {
		if t.Chance(1, 2, "asn-extra") {
			l = append(l, a)
		}
	}
	for i := len(l) - 1; i > 0; i-- {
		j := t.Choose(i+1, "asn-order")
		l[i], l[j] = l[j], l[i]
	}

	return l
}

func buildUniverse(t *kernel.Tape) (u *universe) {
	u = &universe{}
	for i := 0; i < 3; i++ {
		p := &profSpec{
			id:        agd.ProfileID(fmt.Sprintf("prof%d", i)),
			deleted:   t.Chance(1, 4, "prof-deleted"),
			qlog:      t.Chance(1, 2, "qlog"),
			iplog:     t.Chance(1, 2, "iplog"),
			filtering: t.Chance(4, 5, "prof-filtering"),
			autoDevs:  t.Chance(1, 2, "auto-devices"),
			mode: kernel.Pick(t, []dnsmsg.BlockingMode{
				&dnsmsg.BlockingModeNullIP{}, &dnsmsg.BlockingModeNullIP{}, &dnsmsg.BlockingModeNXDOMAIN{}, &dnsmsg.BlockingModeREFUSED{},
			}, "blocking-mode"),
		}
		if t.Chance(1, 2, "prof-access") {
			p.access = &access.ProfileConfig{}
			if t.Chance(1, 2, "acc-blocknet") {
				// (Now and then written with an address inside the network
				// rather than its first one, as the backend may send it.)
				p.access.BlockedNets = []netip.Prefix{kernel.Pick(t, []netip.Prefix{
					profBlockedNet, profBlockedNet, netip.MustParsePrefix("198.51.100.77/24"),
				}, "blocked-net")}
			}
			if t.Chance(1, 2, "acc-allownet") {
				// The upper half of the blocked network, or a narrow network
				// that begins where the blocked one begins.
				p.access.AllowedNets = []netip.Prefix{kernel.Pick(t, []netip.Prefix{
					profAllowedNet, netip.MustParsePrefix("198.51.100.0/28"), netip.MustParsePrefix("198.51.100.201/25"),
				}, "allowed-net")}
			}
			if t.Chance(1, 2, "acc-blockasn") {
				p.access.BlockedASN = asnList(t, []geoip.ASN{64500, 64501})
			}
			if t.Chance(1, 2, "acc-allowasn") {
				p.access.AllowedASN = asnList(t, []geoip.ASN{64501})
			}
			if t.Chance(1, 2, "acc-names") {
				p.access.BlocklistDomainRules = []string{"pblocked.names.test", "||psub.names.test^", "||ptype.names.test^$dnstype=AAAA"}
			}
		}
		u.profs = append(u.profs, p)
	}

	for i := 0; i < 6; i++ {
		d := &devSpec{
			id:       agd.DeviceID(fmt.Sprintf("dev%d", i)),
			prof:     u.profs[t.Choose(3, "dev-prof")],
			attached: i != 5 || t.Chance(1, 2, "dev-attached"),
		}
		switch t.Choose(6, "auth") {
		case 5:
			d.authOn, d.password = true, "right"
			d.dohOnly = t.Chance(1, 2, "bad-hash-doh-only")
			d.badHash = kernel.Pick(t, [][]byte{{}, []byte("test"), bcryptRight[:20], append([]byte("$9z$"), bcryptRight[4:]...)}, "bad-hash")
		case 1:
			d.authOn, d.password = true, "right"
		case 2:
			d.authOn, d.dohOnly, d.password = true, true, "right"
		case 3:
			d.authOn = true
		case 4:
			d.authOn, d.dohOnly = true, true
		}
		if i < 3 {
			d.linkedIP = netip.MustParseAddr(fmt.Sprintf("10.10.0.%d", i+1))
		}
		if i >= 3 && i < 5 {
			d.dedicated = netip.MustParseAddr(dedicatedIPs[i-3])
		}
		switch i {
		case 1:
			d.humanID = "Phone-One"
		case 4:
			d.humanID = "tablet"
		case 5:
			d.humanID = "spare"
		}
		u.devs = append(u.devs, d)
	}

	u.materialise()

	return u
}

// materialise builds fresh profile and device records from the specs, as a
// synchronisation delivers them.
func (u *universe) materialise() {
	for _, p := range u.profs {
		var acc access.Profile = access.EmptyProfile{}
		if p.access != nil {
			acc = access.NewDefaultProfile(p.access)
		}
		p.rec = &agd.Profile{
			FilterConfig: &filter.ConfigClient{
				Custom:       &filter.ConfigCustom{},
				Parental:     &filter.ConfigParental{},
				RuleList:     &filter.ConfigRuleList{Enabled: true},
				SafeBrowsing: &filter.ConfigSafeBrowsing{},
			},
			Access:              acc,
			BlockingMode:        p.mode,
			Ratelimiter:         agd.GlobalRatelimiter{},
			ID:                  p.id,
			FilteredResponseTTL: 10 * time.Second,
			Deleted:             p.deleted,
			FilteringEnabled:    p.filtering,
			IPLogEnabled:        p.iplog,
			QueryLogEnabled:     p.qlog,
			AutoDevicesEnabled:  p.autoDevs,
		}
	}
	for _, d := range u.devs {
		var auth agdpasswd.Authenticator = agdpasswd.AllowAuthenticator{}
		if d.password != "" {
			auth = agdpasswd.NewPasswordHashBcrypt(bcryptRight)
		}
		if d.password == "second" {
			auth = agdpasswd.NewPasswordHashBcrypt(bcryptSecond)
		}
		if d.badHash != nil {
			auth = agdpasswd.NewPasswordHashBcrypt(d.badHash)
		}
		d.rec = &agd.Device{
			Auth:             &agd.AuthSettings{Enabled: d.authOn, DoHAuthOnly: d.dohOnly, PasswordHash: auth},
			ID:               d.id,
			LinkedIP:         d.linkedIP,
			Name:             agd.DeviceName("name-" + string(d.id)),
			HumanIDLower:     agd.HumanIDLower(strings.ToLower(d.humanID)),
			FilteringEnabled: true,
		}
		if d.dedicated.IsValid() {
			d.rec.DedicatedIPs = []netip.Addr{d.dedicated}
		}
		if d.attached {
			d.prof.rec.DeviceIDs = append(d.prof.rec.DeviceIDs, d.id)
		}
	}
}

func (u *universe) dev(id string) *devSpec {
	for _, d := range u.devs {
		if string(d.id) == id {
			return d
		}
	}

	return nil
}

type storage struct{ u *universe }

// CreateAutoDevice is the backend's side of automatic devices: idempotent per
// (profile, lower-case human ID).
func (st *storage) CreateAutoDevice(_ context.Context, req *profiledb.StorageCreateAutoDeviceRequest) (*profiledb.StorageCreateAutoDeviceResponse, error) {
	lower := strings.ToLower(string(req.HumanID))
	for _, d := range st.u.devs {
		if d.attached && d.prof.id == req.ProfileID && strings.ToLower(d.humanID) == lower {
			return &profiledb.StorageCreateAutoDeviceResponse{Device: d.rec}, nil
		}
	}
	var prof *profSpec
	for _, p := range st.u.profs {
		if p.id == req.ProfileID {
			prof = p
		}
	}
	if prof == nil {
		return nil, errors.New("sim backend: no such profile")
	}
	st.u.autoCreated++
	d := &devSpec{
		id:       agd.DeviceID(fmt.Sprintf("auto%d", st.u.autoCreated)),
		prof:     prof,
		attached: true,
		humanID:  string(req.HumanID),
		auto:     true,
	}
	d.rec = &agd.Device{
		Auth:             &agd.AuthSettings{PasswordHash: agdpasswd.AllowAuthenticator{}},
		ID:               d.id,
		Name:             agd.DeviceName(req.HumanID),
		HumanIDLower:     agd.HumanIDLower(lower),
		FilteringEnabled: true,
	}
	st.u.devs = append(st.u.devs, d)

	return &profiledb.StorageCreateAutoDeviceResponse{Device: d.rec}, nil
}

func (st *storage) Profiles(context.Context, *profiledb.StorageProfilesRequest) (*profiledb.StorageProfilesResponse, error) {
	resp := &profiledb.StorageProfilesResponse{SyncTime: time.Now()}
	for _, p := range st.u.profs {
		resp.Profiles = append(resp.Profiles, p.rec)
	}
	for _, d := range st.u.devs {
		resp.Devices = append(resp.Devices, d.rec)
	}

	return resp, nil
}

// ---- recording fakes ----

type seen struct {
	upstream []string // names the upstream saw
	upDev    map[string]string
	filter   []string
	qlog     []*querylog.Entry
	bill     []agd.DeviceID
	rulestat int
	dnsdb    []string
}

type upstream struct{ sn *seen }

func (up *upstream) ServeDNS(ctx context.Context, rw dnsserver.ResponseWriter, req *dns.Msg) error {
	name := strings.ToLower(req.Question[0].Name)
	up.sn.upstream = append(up.sn.upstream, name)
	// The code the upstream gives is in the name, in a label of its own or
	// after a prefix.
	marked := func(m string) bool { return strings.HasPrefix(name, m) || strings.Contains(name, "-"+m) }
	ri := agd.MustRequestInfoFromContext(ctx)
	who := "anonymous"
	if p, d := ri.DeviceData(); p != nil {
		who = string(p.ID) + "/" + string(d.ID)
	}
	up.sn.upDev[name] = who

	resp := (&dns.Msg{}).SetReply(req)
	resp.RecursionAvailable = true
	switch {
	case marked("nx-"):
		resp.Rcode = dns.RcodeNameError

		return rw.WriteMsg(ctx, req, resp)
	case marked("sf-"):
		resp.Rcode = dns.RcodeServerFailure

		return rw.WriteMsg(ctx, req, resp)
	case marked("rf-"):
		resp.Rcode = dns.RcodeRefused

		return rw.WriteMsg(ctx, req, resp)
	case marked("bv-"), marked("bc-"):
		// Codes of more than four bits travel partly in the OPT record, so
		// only a query with one can be given them.
		resp.Rcode = dns.RcodeServerFailure
		if opt := req.IsEdns0(); opt != nil {
			resp.Rcode = dns.RcodeBadVers
			if marked("bc-") {
				resp.Rcode = dns.RcodeBadCookie
			}
			resp.SetEdns0(opt.UDPSize(), opt.Do())
		}

		return rw.WriteMsg(ctx, req, resp)
	}
	switch req.Question[0].Qtype {
	case dns.TypeA:
		resp.Answer = append(resp.Answer, &dns.A{
			Hdr: dns.RR_Header{Name: req.Question[0].Name, Rrtype: dns.TypeA, Class: dns.ClassINET, Ttl: 300},
			A:   []byte{93, 184, 216, 34},
		})
	case dns.TypeAAAA:
		resp.Answer = append(resp.Answer, &dns.AAAA{
			Hdr:  dns.RR_Header{Name: req.Question[0].Name, Rrtype: dns.TypeAAAA, Class: dns.ClassINET, Ttl: 300},
			AAAA: net.ParseIP("2001:db8::34"),
		})
	case dns.TypeHTTPS:
		resp.Answer = append(resp.Answer, &dns.HTTPS{SVCB: dns.SVCB{
			Hdr:      dns.RR_Header{Name: req.Question[0].Name, Rrtype: dns.TypeHTTPS, Class: dns.ClassINET, Ttl: 300},
			Priority: 1, Target: ".",
			Value: []dns.SVCBKeyValue{&dns.SVCBAlpn{Alpn: []string{"h2"}}, &dns.SVCBIPv4Hint{Hint: []net.IP{{93, 184, 216, 34}}}},
		}})
	}

	return rw.WriteMsg(ctx, req, resp)
}

type geo struct{}

func (geo) Data(_ string, ip netip.Addr) (*geoip.Location, error) {
	if a := asnOf(ip); a != 0 {
		return &geoip.Location{Country: "US", ASN: a}, nil
	}

	// Addresses the database knows nothing about.
	if ip.Is4() && (ip.As4()[0] == 10 || ip.As4()[0] == 192) {
		return nil, nil
	}

	return &geoip.Location{Country: "DE", ASN: 1}, nil
}

func (geo) SubnetByLocation(_ *geoip.Location, fam netutil.AddrFamily) (netip.Prefix, error) {
	return netutil.ZeroPrefix(fam), nil
}

// ---- requests ----

type request struct {
	srv       *agd.Server
	srvKind   string
	client    netip.Addr
	local     netip.AddrPort
	name      string
	qtype     uint16
	sni       string
	urlPath   string
	user      string
	pass      string
	hasPass   bool
	cpeID     string
	behaviour string // "", "reqblock", "respblock", "ratelimited"

	// chaos: the question is of class CHAOS (the debug feature: processed
	// like any other, with debug records added to the answer).
	chaos bool

	// mapped: the (IPv4) client address arrives in its 16-octet form;
	// remoteUDP: as a UDP address.
	mapped, remoteUDP bool

	// ecs is the client-subnet option the request carries ("" = none): what
	// the client says about itself must not influence what it may do.
	ecs string
}

func (r *request) String() string {
	return fmt.Sprintf("%s client=%s local=%s %s/%d sni=%q url=%q user=%q pass=%q(%v) cpe=%q ecs=%q", r.srvKind, r.client, r.local,
		r.name, r.qtype, r.sni, r.urlPath, r.user, r.pass, r.hasPass, r.cpeID, r.ecs)
}

// identify is the reference for C03, written from the statement: the device
// whose identifier the request carries through the channel valid for its
// transport, provided it belongs to a non-deleted profile and its
// authentication policy is met.  It returns "" for anonymous, "DROP" when the
// request must be dropped (unknown dedicated address), "ERROR" when the
// identifier is malformed.
func (u *universe) identify(r *request) (who string, why string) {
	var id string
	byAddr := ""
	fromUserinfo := false
	switch r.srv.Protocol {
	case agd.ProtoDNSCrypt:
		return "", "dnscrypt is always anonymous"
	case agd.ProtoDoH:
		if r.user != "" || r.hasPass {
			id = r.user
			fromUserinfo = true
			if id == "" {
				return "ERROR", "userinfo without a user name"
			}
		} else if parts := strings.Split(strings.Trim(r.urlPath, "/"), "/"); len(parts) == 2 {
			id = parts[1]
		} else if len(parts) > 2 {
			return "ERROR", "extra path elements"
		}
		if id == "" {
			id = idFromSNI(r.sni)
		}
	case agd.ProtoDoT, agd.ProtoDoQ:
		id = idFromSNI(r.sni)
	case agd.ProtoDNS:
		id = r.cpeID
		if id == "" {
			if r.srv.BindsToInterfaces() && !r.srv.HasAddr(r.local) {
				byAddr = "dedicated"
			} else if r.srv.LinkedIPEnabled {
				byAddr = "linked"
			}
		}
	}

	var d *devSpec
	if ext, isExt := parseExtID(id); isExt && !fromUserinfo && r.srv.Protocol != agd.ProtoDNS {
		// A human-readable identifier: device type, profile, name.
		if ext == nil {
			return "ERROR", "malformed human-readable identifier"
		}
		var prof *profSpec
		for _, p := range u.profs {
			if string(p.id) == ext.prof {
				prof = p
			}
		}
		if prof == nil {
			return "", "human-readable id: no such profile"
		}
		for _, x := range u.devs[:u.visible] {
			if x.attached && x.prof == prof && x.humanID != "" && strings.ToLower(x.humanID) == ext.human {
				d = x
			}
		}
		if d == nil {
			if !prof.autoDevs {
				return "", "human-readable id: no such device, and automatic devices are off"
			}
			if prof.deleted {
				return "", "profile is deleted"
			}

			return string(prof.id) + "/AUTO:" + ext.human, "recognised (device created on demand)"
		}
		id = ""
	}
	switch {
	case d != nil:
	case id != "":
		if _, err := agd.NewDeviceID(id); err != nil {
			return "ERROR", "malformed device id"
		}

		// Identifiers are host-name labels: they compare case-insensitively.
		d = u.dev(strings.ToLower(id))
	case byAddr == "dedicated":
		for _, x := range u.devs {
			if x.dedicated.IsValid() && x.dedicated == r.local.Addr() && x.attached {
				d = x
			}
		}
		if d == nil {
			return "DROP", "unknown dedicated address"
		}
	case byAddr == "linked":
		for _, x := range u.devs {
			if x.linkedIP == r.client {
				d = x
			}
		}
	}

	if d == nil {
		return "", "no identifier, or no such device"
	}
	if !d.attached {
		return "", "device is not attached to a profile"
	}
	if d.prof.deleted {
		return "", "profile is deleted"
	}

	if d.authOn {
		if r.srv.Protocol != agd.ProtoDoH {
			if d.dohOnly {
				return "", "DoH-only device on another transport"
			}
		} else if r.user == "" && !r.hasPass {
			if d.dohOnly {
				return "", "DoH-only device without credentials"
			}
		} else {
			if !r.hasPass {
				return "", "no password supplied"
			}
			if d.password != "" && r.pass != d.password {
				return "", "wrong password"
			}
			if d.badHash != nil {
				return "", "no password matches what is stored for the device"
			}
		}
	}

	return string(d.prof.id) + "/" + string(d.id), "recognised"
}

type extID struct {
	prof, human string
}

var knownDevTypes = []string{"win", "adr", "mac", "ios", "lnx", "rtr", "stv", "gam", "otr"}

// parseExtID is the reference reading of "<type>-<profile>-<name>": a string
// with at least two hyphens is such an identifier; it is malformed (ext ==
// nil) unless the type is one of the documented three-letter codes and the
// profile ID is well-formed.  Names are only generated in normal form.
func parseExtID(s string) (ext *extID, isExt bool) {
	if strings.Count(s, "-") < 2 {
		return nil, false
	}
	parts := strings.SplitN(s, "-", 3)
	okType := false
	for _, k := range knownDevTypes {
		if strings.EqualFold(k, parts[0]) {
			okType = true
		}
	}
	if !okType {
		return nil, true
	}
	if _, err := agd.NewProfileID(strings.ToLower(parts[1])); err != nil {
		return nil, true
	}
	human := parts[2]
	if _, err := agd.NewHumanID(human); err != nil {
		// Not in normal form: the resolver normalises such names as best it
		// can.  The reference does so with a parser of its own that is used
		// this once, and keeps a copy of the result.
		norm, nerr := agd.NewHumanIDParser().ParseNormalized(human)
		if nerr != nil {
			return nil, true
		}
		human = strings.Clone(string(norm))
	}

	return &extID{prof: strings.ToLower(parts[1]), human: strings.ToLower(human)}, true
}

func idFromSNI(sni string) string {
	l := strings.ToLower(sni)
	if !strings.HasSuffix(l, "."+deviceDomain) {
		return ""
	}
	rest := sni[:len(sni)-len(deviceDomain)-1]
	if strings.Contains(rest, ".") {
		return ""
	}

	return rest
}

// ---- the run ----

func run(s *kernel.Sim, prop, cfg string) {
	if prop == "C07" {
		runC07(s, cfg)

		return
	}
	if prop == "C09" {
		runC09(s, cfg)

		return
	}
	if prop == "C08" {
		runC08(s, cfg)

		return
	}

	t := s.T
	u := buildUniverse(t)
	sn := &seen{upDev: map[string]string{}}

	db, err := profiledb.New(&profiledb.Config{
		Logger:           slog.New(slog.DiscardHandler),
		Storage:          &storage{u: u},
		ErrColl:          &world.ErrColl{},
		Metrics:          profiledb.EmptyMetrics{},
		CacheFilePath:    "none",
		FullSyncIvl:      time.Hour,
		FullSyncRetryIvl: time.Minute,
	})
	if err != nil {
		panic(err)
	}
	if err = db.Refresh(context.Background()); err != nil {
		panic(err)
	}

	global, err := access.NewGlobal(
		[]string{"gblocked.names.test", "||gsub.names.test^", "||gtype.names.test^$dnstype=AAAA"},
		globalBlockedNets,
	)
	if err != nil {
		panic(err)
	}

	servers := map[string]*agd.Server{
		"dns-linked": world.NewServer("dns-linked", agd.ProtoDNS, "198.18.0.1:53", true),
		"dns-plain":  world.NewServer("dns-plain", agd.ProtoDNS, "198.18.0.2:53", false),
		"dns-iface":  world.NewServerIface("dns-iface", "198.18.10.0/24", 53, true),
		"dns-iface2": world.NewServerIface("dns-iface2", "198.18.10.0/24", 53, false),
		"dot":        world.NewServer("dot", agd.ProtoDoT, "198.18.0.3:853", false),
		"doh":        world.NewServer("doh", agd.ProtoDoH, "198.18.0.4:443", false),
		"doq":        world.NewServer("doq", agd.ProtoDoQ, "198.18.0.5:853", false),
		"dnscrypt":   world.NewServer("dnscrypt", agd.ProtoDNSCrypt, "198.18.0.6:5443", true),
		// Encrypted servers with the settings of the address channels: these
		// are channels of plain DNS only.
		"dot-linked": world.NewServer("dot-linked", agd.ProtoDoT, "198.18.0.7:853", true),
		"doh-linked": world.NewServer("doh-linked", agd.ProtoDoH, "198.18.0.8:443", true),
		"doq-iface":  world.NewServerIfaceProto("doq-iface", agd.ProtoDoQ, "198.18.10.0/24", 853, true),
		"dot-iface":  world.NewServerIfaceProto("dot-iface", agd.ProtoDoT, "198.18.10.0/24", 853, false),
	}
	kinds := []string{"dns-linked", "dns-plain", "dns-iface", "dns-iface2", "dot", "doh", "doq", "dnscrypt", "dot-linked", "doh-linked", "doq-iface", "dot-iface"}
	var srvList []*agd.Server
	for _, k := range kinds {
		srvList = append(srvList, servers[k])
	}

	flt := &agdtest.Filter{
		OnFilterRequest: func(_ context.Context, req *filter.Request) (filter.Result, error) {
			sn.filter = append(sn.filter, req.Host)
			if strings.HasPrefix(req.Host, "reqblock") {
				return &filter.ResultBlocked{List: "list_req", Rule: filter.RuleText("||" + req.Host + "^")}, nil
			}

			return nil, nil
		},
		OnFilterResponse: func(_ context.Context, resp *filter.Response) (filter.Result, error) {
			host := strings.TrimSuffix(strings.ToLower(resp.DNS.Question[0].Name), ".")
			if strings.HasPrefix(host, "respblock") {
				return &filter.ResultBlocked{List: "list_resp", Rule: filter.RuleText("||" + host + "^")}, nil
			}

			return nil, nil
		},
	}

	qlogFails := false
	w, err := world.New(&world.Config{
		Cache:         &dnssvc.CacheConfig{Type: dnssvc.CacheTypeECS, ECSCount: 100, NoECSCount: 100},
		Upstream:      &upstream{sn: sn},
		GeoIP:         geo{},
		ProfileDB:     db,
		AccessManager: global,
		RateLimit: &agdtest.RateLimit{
			OnIsRateLimited: func(_ context.Context, req *dns.Msg, _ netip.Addr) (bool, bool, error) {
				return strings.HasPrefix(req.Question[0].Name, "ratelimited"), false, nil
			},
			OnCountResponses: func(context.Context, *dns.Msg, netip.Addr) {},
		},
		FilterStorage: &agdtest.FilterStorage{
			OnForConfig: func(_ context.Context, c filter.Config) filter.Interface {
				if c == nil {
					// What the stack asks for when the profile or the device
					// has filtering switched off.
					return filter.Empty{}
				}

				return flt
			},
			OnHasListID: func(filter.ID) bool { return true },
		},
		QueryLog: &agdtest.QueryLog{OnWrite: func(_ context.Context, e *querylog.Entry) error {
			c := *e
			sn.qlog = append(sn.qlog, &c)
			if qlogFails {
				// The entry was handed over; the writer reports a failure
				// (full disk).  The client must still be answered.
				s.Fault("querylog-write-error")

				return errors.New("sim querylog: no space left on device")
			}

			return nil
		}},
		BillStat: &agdtest.BillStatRecorder{OnRecord: func(_ context.Context, id agd.DeviceID, _ geoip.Country, _ geoip.ASN, _ time.Time, _ agd.Protocol) {
			sn.bill = append(sn.bill, id)
		}},
		RuleStat: &agdtest.RuleStat{OnCollect: func(context.Context, filter.ID, filter.RuleText) { sn.rulestat++ }},
		DNSDB: &agdtest.DNSDB{OnRecord: func(_ context.Context, m *dns.Msg, _ *agd.RequestInfo) {
			sn.dnsdb = append(sn.dnsdb, strings.ToLower(m.Question[0].Name))
		}},
		CacheManager:  &world.CacheManager{},
		Servers:       srvList,
		DeviceDomains: []string{deviceDomain},
	})
	if err != nil {
		panic(err)
	}

	var blockedNames []string // names an access-blocked request asked for
	n := t.Range(4, 40, "requests")
	for i := 0; i < n && s.Failed() == nil; i++ {
		r := genRequest(t, u, servers, kinds, i, prop)
		if len(blockedNames) > 0 && t.Chance(1, 4, "retry-blocked-name") {
			// An allowed request for a name that an access-blocked request
			// asked for earlier: it must reach the upstream (nothing may have
			// been cached for the blocked one).
			r.name = blockedNames[t.Choose(len(blockedNames), "which-blocked")]
			blockedNames = nil
			r.srv, r.srvKind = servers["dns-plain"], "dns-plain"
			r.client = netip.MustParseAddr("203.0.113.7")
			r.local = netip.AddrPort{}
			r.cpeID, r.sni, r.urlPath, r.user, r.pass, r.hasPass = "", "", "", "", "", false
			r.behaviour = ""
			for _, b := range []string{"reqblock", "respblock", "ratelimited"} {
				if strings.HasPrefix(r.name, b) {
					r.behaviour = b
				}
			}
			if strings.Contains(r.name, "names.test") {
				// Globally blocked names stay blocked for everybody.
				continue
			}
		}

		if t.Chance(1, 8, "backend-change") {
			// The backend changes and the database synchronises: a profile is
			// deleted or restored, a device leaves or rejoins its profile or
			// gets other authentication settings or moves to another profile.
			switch t.Choose(4, "change-kind") {
			case 0:
				p := kernel.Pick(t, u.profs, "changed-profile")
				p.deleted = !p.deleted
				s.Logf("backend: %s deleted=%v", p.id, p.deleted)
			case 3:
				// A device moves to another profile, human-readable name and
				// addresses included.
				d := kernel.Pick(t, u.devs, "changed-device")
				d.prof = kernel.Pick(t, u.profs, "new-profile")
				s.Logf("backend: %s moved to %s", d.id, d.prof.id)
				s.Probe("device-moved")
			case 1:
				d := kernel.Pick(t, u.devs, "changed-device")
				d.attached = !d.attached
				s.Logf("backend: %s attached=%v", d.id, d.attached)
			default:
				d := kernel.Pick(t, u.devs, "changed-device")
				if !d.auto {
					oldPw := d.password
					defer func() {
						if oldPw != "" && d.password != "" && d.password != oldPw {
							u.pwDev, u.pwOld, u.pwLeft = d, oldPw, 4
						}
					}()
					d.authOn, d.dohOnly, d.password, d.badHash = false, false, "", nil
					switch t.Choose(7, "auth") {
					case 5:
						// The password is changed: the old one opens nothing
						// any more.
						d.authOn, d.password = true, "second"
					case 6:
						d.authOn, d.dohOnly, d.password = true, true, "second"
					case 1:
						d.authOn, d.password = true, "right"
					case 2:
						d.authOn, d.dohOnly, d.password = true, true, "right"
					case 3:
						d.authOn = true
					case 4:
						d.authOn, d.dohOnly = true, true
					}
					s.Logf("backend: %s auth=%v doh-only=%v password=%q", d.id, d.authOn, d.dohOnly, d.password)
				}
			}
			u.materialise()
			if rerr := db.Refresh(context.Background()); rerr != nil {
				s.Failf(prop+"/sync", "profile synchronisation failed", "%v", rerr)

				return
			}
			s.Probe("backend-changed-and-synchronised")
		}

		*sn = seen{upDev: map[string]string{}}
		qlogFails = prop == "C15" && t.Chance(1, 10, "querylog-write-error")
		u.visible = len(u.devs)
		out, serr := serve(w, r, uint16(100+i))
		who, why := u.identify(r)
		if k := strings.Index(who, "/AUTO:"); k >= 0 {
			// The device must have been created for this request.
			for _, x := range u.devs[u.visible:] {
				if string(x.prof.id) == who[:k] && strings.ToLower(x.humanID) == who[k+6:] {
					who = who[:k] + "/" + string(x.id)
					s.Probe("device-created-on-demand")
				}
			}
		}

		lname := strings.ToLower(r.name)
		if repl := metricReplacement(lname); repl != "" {
			// The upstream is asked the common name of such probes.
			if v, ok := sn.upDev[repl]; ok {
				sn.upDev[lname] = v
			}
			s.Probe("android-metric-name")
		}
		gotResp := out != nil && len(out.Msgs) > 0
		sawUp := len(sn.upstream) > 0
		s.Logf("req %d: %s -> identify=%q (%s); resp=%v rcode=%s upstream=%v as %q qlog=%d bill=%v err=%v",
			i, r, who, why, gotResp, rcodeOf(out), sawUp, sn.upDev[lname], len(sn.qlog), sn.bill, serr)

		if out != nil && len(out.Msgs) > 1 {
			s.Failf(prop+"/two-responses", "more than one response written", "req %d: %d", i, len(out.Msgs))

			return
		}

		// ---- reference for access blocking (C10) ----
		blocked, bwhy := u.accessBlocked(r, who)
		rateLimited := r.behaviour == "ratelimited" && r.srv.Protocol == agd.ProtoDNS
		dropped := who == "DROP" || rateLimited

		switch prop {
		case "C03":
			checkC03(s, i, r, who, why, sn, lname, gotResp, blocked || dropped, serr)
		case "C10":
			if who == "ERROR" || dropped {
				continue
			}
			if blocked {
				s.Probe("access-blocked-" + strings.Fields(bwhy)[0])
				s.MarkNontrivial()
				if gotResp {
					s.Failf("C10/answered", "access-blocked request got a response ("+bwhy+")", "req %d: %s", i, r)

					return
				}
				if sawUp || len(sn.filter) > 0 || len(sn.qlog) > 0 || len(sn.bill) > 0 || sn.rulestat > 0 || len(sn.dnsdb) > 0 {
					s.Failf("C10/trace", "access-blocked request reached a later stage ("+bwhy+")",
						"req %d: %s: upstream=%v filter=%v qlog=%d bill=%v rulestat=%d dnsdb=%v",
						i, r, sn.upstream, sn.filter, len(sn.qlog), sn.bill, sn.rulestat, sn.dnsdb)

					return
				}
				blockedNames = append(blockedNames, r.name)
			} else {
				if !gotResp {
					s.Failf("C10/dropped", "request that no access rule rejects got no response", "req %d: %s (identified %q)", i, r, who)

					return
				}
				if r.behaviour == "" && !sawUp && out.Msgs[0].Rcode == dns.RcodeSuccess && !strings.Contains(lname, "names.test") {
					// Served without asking the upstream: only legal if an
					// earlier *allowed* request populated the cache; names
					// are unique per request except for the retry case, where
					// the earlier request was blocked.
					s.Failf("C10/cached-for-blocked", "an access-blocked request left an answer in the cache",
						"req %d: %s answered without the upstream", i, r)

					return
				}
			}
		case "C15":
			checkC15(s, i, r, u, who, sn, lname, gotResp, blocked, dropped, out)
		}
	}
}

func rcodeOf(out *world.Writer) string {
	if out == nil || len(out.Msgs) == 0 {
		return "-"
	}

	return dns.RcodeToString[out.Msgs[0].Rcode]
}

func serve(w *world.World, r *request, id uint16) (out *world.Writer, err error) {
	req := &dns.Msg{}
	req.Id = id
	req.RecursionDesired = true
	req.Question = []dns.Question{{Name: r.name, Qtype: r.qtype, Qclass: dns.ClassINET}}
	if r.chaos {
		req.Question[0].Qclass = dns.ClassCHAOS
	}
	if r.cpeID != "" {
		req.SetEdns0(1232, false)
		req.IsEdns0().Option = append(req.IsEdns0().Option, &dns.EDNS0_LOCAL{Code: 65074, Data: []byte(r.cpeID)})
	}

	if r.ecs != "" {
		addECS(req, r.ecs)
	}

	info := &dnsserver.RequestInfo{TLSServerName: r.sni}
	if r.srv.Protocol == agd.ProtoDoH {
		info.URL = &url.URL{Path: r.urlPath}
		if r.user != "" || r.hasPass {
			if r.hasPass {
				info.Userinfo = url.UserPassword(r.user, r.pass)
			} else {
				info.Userinfo = url.User(r.user)
			}
		}
	}

	return w.Serve(context.Background(), &world.Request{
		Server: r.srv,
		Info:   info,
		Local:  r.local,
		Remote: netip.AddrPortFrom(r.client, 40000),
		Msg:    req,

		MappedRemote: r.mapped,
		RemoteUDP:    r.remoteUDP,
	})
}

// metricReplacement returns the name the resolver asks upstream instead of an
// Android private-DNS probe name (doc: the random part is replaced by zeros),
// or "".
func metricReplacement(lname string) (repl string) {
	switch {
	case strings.HasSuffix(lname, "-dnsotls-ds.metric.gstatic.com."):
		return "00000000-dnsotls-ds.metric.gstatic.com."
	case strings.HasSuffix(lname, "-dnsohttps-ds.metric.gstatic.com."):
		return "000000-dnsohttps-ds.metric.gstatic.com."
	}

	return ""
}

func genRequest(t *kernel.Tape, u *universe, servers map[string]*agd.Server, kinds []string, i int, prop string) (r *request) {
	r = &request{}
	r.srvKind = kernel.Pick(t, kinds, "server")
	r.srv = servers[r.srvKind]
	r.client = netip.MustParseAddr(kernel.Pick(t, clientAddrs, "client"))
	r.mapped = r.client.Is4() && t.Chance(1, 4, "client-address-in-16-octets")
	r.remoteUDP = t.Chance(1, 3, "client-address-udp")
	r.qtype = kernel.Pick(t, []uint16{dns.TypeA, dns.TypeA, dns.TypeAAAA, dns.TypeTXT, dns.TypeHTTPS}, "qtype")

	// Names: unique per request, with a behaviour prefix or an access-rule
	// suffix.
	base := fmt.Sprintf("n%d", i)
	// What the upstream says about the name: it exists, does not exist,
	// cannot be resolved, is refused, or gets one of the codes that need an
	// OPT record.
	base = kernel.Pick(t, []string{"", "", "", "nx-", "sf-", "", "", "", "rf-", "bv-", "bc-"}, "upstream-rcode") + base
	switch t.Choose(11, "name-kind") {
	case 10:
		// A connectivity probe of Android's private DNS: the resolver asks
		// the upstream for one common name instead (once per run here, so
		// that the common answer is not in the cache yet).
		if u.metricUsed {
			r.name = base + ".example."

			break
		}
		u.metricUsed = true
		r.name = fmt.Sprintf("%08x-dnsotls-ds.metric.gstatic.com.", 0xa11d0000+i)
		if t.Chance(1, 2, "metric-doh") {
			r.name = fmt.Sprintf("%06x-dnsohttps-ds.metric.gstatic.com.", 0xa10000+i)
		}
	case 0:
		r.name, r.behaviour = "reqblock-"+base+".example.", "reqblock"
	case 1:
		r.name, r.behaviour = "respblock-"+base+".example.", "respblock"
	case 2:
		r.name, r.behaviour = "ratelimited-"+base+".example.", "ratelimited"
	case 3:
		r.name = kernel.Pick(t, []string{"gblocked.names.test.", "x.gsub.names.test.", "gsub.names.test.", "gtype.names.test.", "GBLOCKED.names.test.", "X.gSub.Names.Test.", "gType.names.test."}, "gname")
		r.chaos = prop == "C10" && t.Chance(1, 4, "chaos-class")
	case 4:
		r.name = kernel.Pick(t, []string{"pblocked.names.test.", "y.psub.names.test.", "ptype.names.test.", "notblocked.names.test.", "PBlocked.Names.test.", "y.pSuB.names.TEST.", "Ptype.names.test."}, "pname")
		// Name rules know no classes.
		r.chaos = prop == "C10" && t.Chance(1, 4, "chaos-class")
	default:
		r.name = base + ".example."
	}

	ids := []string{"", "dev0", "dev1", "dev2", "dev3", "dev4", "dev5", "nosuch", "DEV1", "bad id!"}
	id := kernel.Pick(t, ids, "ident")
	if t.Chance(1, 4, "human-readable-id") {
		id = kernel.Pick(t, []string{"adr", "win", "OTR", "xxx", "rt"}, "dev-type") + "-" +
			kernel.Pick(t, []string{"prof0", "prof1", "prof2", "nosuch", "PROF1"}, "ext-prof") + "-" +
			kernel.Pick(t, []string{"phone-one", "Phone-One", "tablet", "spare", "newdev", "NewDev"}, "human")
		if r.srv.Protocol == agd.ProtoDoH && t.Chance(1, 2, "name-not-in-normal-form") {
			// A name that has to be normalised first (a URL path can carry
			// it); few of them, so that they come again.
			id = strings.Join(strings.SplitN(id, "-", 3)[:2], "-") + "-" +
				kernel.Pick(t, []string{"New--Dev!!", "Other_Tab!!", "My--Phone!"}, "odd-human")
		}
	}

	switch r.srv.Protocol {
	case agd.ProtoDoH:
		r.urlPath = "/dns-query"
		switch t.Choose(6, "doh-channel") {
		case 0:
			if id != "" {
				r.urlPath = "/dns-query/" + id
			}
		case 1:
			// The basic-auth user name is compared as is; case variants are
			// exercised on the URL and TLS channels.
			r.user = strings.ToLower(id)
			switch t.Choose(6, "pass") {
			case 0:
			case 4, 5:
				// The other password devices may have, or have had.
				r.pass, r.hasPass = "second", true
			case 1:
				r.pass, r.hasPass = "right", true
			case 2:
				r.pass, r.hasPass = "wrong", true
			case 3:
				r.pass, r.hasPass = "", true
			}
		case 2:
			if id != "" {
				r.sni = id + "." + deviceDomain
			}
		case 3:
			// Path of one device, credentials of another.
			r.urlPath = "/dns-query/" + kernel.Pick(t, ids[1:7], "other")
			r.user, r.pass, r.hasPass = strings.ToLower(id), "right", true
		case 4:
			r.urlPath = "/dns-query/" + id + "/extra"
		default:
		}
	case agd.ProtoDoT, agd.ProtoDoQ:
		switch t.Choose(8, "sni-shape") {
		case 0:
			if id != "" {
				r.sni = id + "." + deviceDomain
			}
		case 1:
			if id != "" {
				r.sni = id + ".D.Sim.Test"
			}
		case 2:
			r.sni = "x." + id + "." + deviceDomain
		case 3:
			r.sni = id + ".other.test"
		case 4:
			r.sni = deviceDomain
		case 5:
			// Names that merely end with the device domain's text: siblings
			// of the device domain, not names under it.
			r.sni = id + kernel.Pick(t, []string{"x", "-", "", ".x", "0"}, "sibling") + deviceDomain
		case 6:
			r.sni = id + "." + deviceDomain + kernel.Pick(t, []string{".", "x", ".test"}, "tail")
		default:
		}
		// The wrong channel for this transport.
		if t.Chance(1, 4, "cpe-on-tls") {
			r.cpeID = kernel.Pick(t, ids[1:6], "cpe")
		}
		if r.srv.BindsToInterfaces() {
			r.local = netip.AddrPortFrom(netip.MustParseAddr(kernel.Pick(t, append([]string{"198.18.10.200", "198.18.10.1"}, dedicatedIPs...), "local-addr-tls")), 853)
		}
	case agd.ProtoDNS:
		if t.Chance(1, 3, "cpe") && id != "bad id!" {
			// The EDNS option is compared as is; case variants are exercised
			// on the URL and TLS channels.
			r.cpeID = strings.ToLower(id)
		}
		if r.srvKind == "dns-iface" || r.srvKind == "dns-iface2" {
			switch t.Choose(3, "local-addr") {
			case 0:
				r.local = netip.AddrPortFrom(netip.MustParseAddr(kernel.Pick(t, dedicatedIPs, "dedicated")), 53)
			case 1:
				r.local = netip.AddrPortFrom(netip.MustParseAddr("198.18.10.200"), 53)
			default:
				r.local = netip.AddrPortFrom(netip.MustParseAddr("198.18.10.1"), 53)
			}
		}
	case agd.ProtoDNSCrypt:
		if t.Chance(1, 2, "cpe-on-dnscrypt") {
			r.cpeID = kernel.Pick(t, ids[1:6], "cpe")
		}
	}

	if t.Chance(1, 6, "client-subnet-option") {
		r.ecs = kernel.Pick(t, []string{"100.70.0.0/24", "100.71.0.0/24", "203.0.113.0/24", "198.51.100.0/24", "0.0.0.0/0"}, "ecs")
	}

	if prop == "C03" && u.pwLeft == 0 && t.Chance(1, 8, "password-used") {
		// A device with a password uses it over DoH, as it is.
		var withPw []*devSpec
		for _, d := range u.devs {
			if d.authOn && d.password != "" && d.badHash == nil && !d.auto {
				withPw = append(withPw, d)
			}
		}
		if len(withPw) > 0 {
			u.pwDev = withPw[t.Choose(len(withPw), "device-with-password")]
			u.pwOld = u.pwDev.password
			u.pwLeft = 1
		}
	}
	if u.pwLeft > 0 && prop == "C03" {
		u.pwLeft--
		if u.pwOld == u.pwDev.password || t.Chance(1, 2, "after-password-change") {
			// A device whose password has just changed, over DoH with basic
			// authentication: the old password, or the new one.
			for _, k := range kinds {
				if servers[k].Protocol == agd.ProtoDoH {
					r.srvKind, r.srv = k, servers[k]
				}
			}
			if r.srv.Protocol == agd.ProtoDoH {
				r.local = netip.AddrPort{}
				r.cpeID, r.sni, r.urlPath = "", "", "/dns-query"
				r.user, r.hasPass = string(u.pwDev.id), true
				r.pass = kernel.Pick(t, []string{u.pwOld, u.pwOld, u.pwDev.password}, "which-password")
			}
		}
	}

	if prop == "C15" {
		// Repeated questions: the answer may come from the response cache,
		// which must not change what is logged and billed.
		if len(u.asked) > 0 && t.Chance(1, 4, "repeat-question") {
			prev := u.asked[t.Choose(len(u.asked), "which-question")]
			r.name, r.qtype, r.behaviour = prev.name, prev.qtype, prev.behaviour
		} else if !strings.Contains(r.name, "names.test") {
			u.asked = append(u.asked, r)
		}
	}

	return r
}

// accessBlocked is the reference for C10, from the statement.
func (u *universe) accessBlocked(r *request, who string) (blocked bool, why string) {
	for _, n := range globalBlockedNets {
		if n.Contains(r.client) {
			return true, "global-subnet"
		}
	}

	host := strings.ToLower(strings.TrimSuffix(r.name, "."))
	matchNames := func(prefix string) bool {
		switch {
		case host == prefix+"blocked.names.test":
			return true
		case host == prefix+"sub.names.test", strings.HasSuffix(host, "."+prefix+"sub.names.test"):
			return true
		case (host == prefix+"type.names.test" || strings.HasSuffix(host, "."+prefix+"type.names.test")) && r.qtype == dns.TypeAAAA:
			return true
		}

		return false
	}
	if matchNames("g") {
		return true, "global-name"
	}

	if who == "" || who == "DROP" || who == "ERROR" {
		return false, ""
	}

	d := u.dev(strings.SplitN(who, "/", 2)[1])
	acc := d.prof.access
	if acc == nil {
		return false, ""
	}

	asn := asnOf(r.client)
	allowed := false
	for _, p := range acc.AllowedNets {
		allowed = allowed || p.Contains(r.client)
	}
	for _, a := range acc.AllowedASN {
		allowed = allowed || a == asn
	}
	if !allowed {
		for _, p := range acc.BlockedNets {
			if p.Contains(r.client) {
				return true, "profile-subnet"
			}
		}
		for _, a := range acc.BlockedASN {
			if a == asn {
				return true, "profile-asn"
			}
		}
	}

	if len(acc.BlocklistDomainRules) > 0 && matchNames("p") {
		return true, "profile-name"
	}

	return false, ""
}

func checkC03(s *kernel.Sim, i int, r *request, who, why string, sn *seen, lname string, gotResp, accessOrDropped bool, serr error) {
	if who == "ERROR" {
		// A malformed identifier: the statement only demands that nobody is
		// recognised.
		if got, ok := sn.upDev[lname]; ok && got != "anonymous" {
			s.Failf("C03/unsound", "request with a malformed identifier attributed to a device", "req %d: %s -> %s", i, r, got)
		}

		return
	}

	if who == "DROP" {
		if gotResp {
			s.Failf("C03/unknown-dedicated-answered", "request to an unknown dedicated address was answered", "req %d: %s", i, r)
		}

		return
	}

	if accessOrDropped || r.behaviour != "" || strings.Contains(lname, "names.test") {
		return
	}

	got, reached := sn.upDev[lname]
	if !reached {
		s.Failf("C03/not-served", "request was not served", "req %d: %s (expected %q: %s) err=%v", i, r, who, why, serr)

		return
	}

	want := who
	if want == "" {
		want = "anonymous"
	}
	if got == want {
		if who != "" {
			s.Probe("recognised")
			s.MarkNontrivial()
		}

		return
	}

	if got != "anonymous" {
		s.Failf("C03/unsound", "request attributed to a device although: "+why,
			"req %d: %s -> attributed to %s, expected %s", i, r, got, want)

		return
	}

	s.Failf("C03/incomplete", "device not recognised although it identified itself validly",
		"req %d: %s -> anonymous, expected %s", i, r, want)
}

func checkC15(s *kernel.Sim, i int, r *request, u *universe, who string, sn *seen, lname string, gotResp, blocked, dropped bool, out *world.Writer) {
	if who == "ERROR" {
		return
	}

	attributed := who != "" && who != "DROP"
	var d *devSpec
	if attributed {
		d = u.dev(strings.SplitN(who, "/", 2)[1])
	}

	if !attributed || blocked || dropped {
		if len(sn.qlog) > 0 || len(sn.bill) > 0 {
			what := "anonymous"
			if blocked {
				what = "access-blocked"
			} else if dropped {
				what = "dropped"
			}
			s.Failf("C15/logged", what+" query was logged or billed", "req %d: %s: qlog=%d bill=%v", i, r, len(sn.qlog), sn.bill)
		}

		return
	}

	s.MarkNontrivial()
	if gotResp && len(sn.bill) != 1 {
		s.Failf("C15/billing", "attributed and answered query has no single billing record", "req %d: %s (%s): %v", i, r, who, sn.bill)

		return
	}
	if len(sn.bill) == 1 && sn.bill[0] != d.id {
		s.Failf("C15/billing", "billing record names another device", "req %d: %s: %v", i, who, sn.bill)

		return
	}

	if !d.prof.qlog {
		if len(sn.qlog) > 0 {
			s.Failf("C15/logged", "query of a profile with query logging off was logged", "req %d: %s (%s)", i, r, who)
		}
		s.Probe("attributed-not-logged")

		return
	}

	if gotResp && len(sn.qlog) != 1 {
		s.Failf("C15/missing", "query of a profile with query logging on has no single log entry", "req %d: %s (%s): %d", i, r, who, len(sn.qlog))

		return
	}
	if len(sn.qlog) == 0 {
		return
	}

	s.Probe("logged")
	e := sn.qlog[0]
	if (e.RemoteIP != netip.Addr{}) != d.prof.iplog {
		s.Failf("C15/client-ip", "client address logged although IP logging is off (or missing although on)",
			"req %d: %s (%s): iplog=%v entry ip=%v", i, r, who, d.prof.iplog, e.RemoteIP)

		return
	}
	if d.prof.iplog && e.RemoteIP != r.client {
		s.Failf("C15/client-ip", "logged client address is not the request's", "req %d: %v vs %v", i, e.RemoteIP, r.client)

		return
	}

	wantRcode := -1
	if gotResp {
		wantRcode = out.Msgs[0].Rcode
	}
	var reqRule, respRule string
	if e.RequestResult != nil {
		_, t := e.RequestResult.MatchedRule()
		reqRule = string(t)
	}
	if e.ResponseResult != nil {
		_, t := e.ResponseResult.MatchedRule()
		respRule = string(t)
	}
	host := strings.TrimSuffix(lname, ".")
	wantReq, wantResp := "", ""
	if r.behaviour == "reqblock" && d.prof.filtering {
		wantReq = "||" + host + "^"
	}
	if r.behaviour == "respblock" && d.prof.filtering {
		wantResp = "||" + host + "^"
	}

	if !strings.EqualFold(e.DomainFQDN, r.name) || e.RequestType != r.qtype || e.ProfileID != d.prof.id || e.DeviceID != d.id ||
		e.Protocol != r.srv.Protocol || (wantRcode >= 0 && int(e.ResponseCode) != wantRcode) || reqRule != wantReq || respRule != wantResp {
		s.Failf("C15/entry-fields", "log entry does not describe its own request",
			"req %d: %s (%s): entry name=%s type=%d prof=%s dev=%s proto=%v rcode=%d reqrule=%q resprule=%q; expected rcode=%d reqrule=%q resprule=%q",
			i, r, who, e.DomainFQDN, e.RequestType, e.ProfileID, e.DeviceID, e.Protocol, e.ResponseCode, reqRule, respRule, wantRcode, wantReq, wantResp)
	}
}

func TestWorker(t *testing.T) {
	kernel.WorkerMain(t, &kernel.Engine{Name: "sysim", Run: run, IsolatePools: func(prop string) bool { return prop == "C07" }})
}
