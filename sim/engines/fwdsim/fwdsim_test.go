// Package fwdsim simulates the forwarding handler (property C17, and the
// upstream-reply half of C06): the real forward.Handler with UpstreamPlain
// upstreams whose dials are routed (overlay dial seam) to scripted DNS
// servers on the simulated network; health-check rounds and queries on the
// simulated clock; a reference state machine and the upstream-side receive
// log as ground truth.
package fwdsim

import (
	"context"
	"encoding/binary"
	"errors"
	"fmt"
	"io"
	"log/slog"
	"math/rand/v2"
	"net"
	"net/netip"
	"strings"
	"sync"
	"testing"
	"testing/synctest"
	"time"

	"github.com/AdguardTeam/AdGuardDNS/internal/dnsserver"
	"github.com/AdguardTeam/AdGuardDNS/internal/dnsserver/forward"
	"github.com/AdguardTeam/AdGuardDNS/verif/dnsid"
	"github.com/AdguardTeam/AdGuardDNS/verif/kernel"
	"github.com/AdguardTeam/AdGuardDNS/verif/simnet"
	"github.com/miekg/dns"
)

const hcDomain = "hc.probe.test."

var allStates = []string{
	"up", "up", "up", "silent", "refuse", "close", "wrong-id", "wrong-name", "wrong-type", "two-questions",
	"tc-then-tcp", "garbage", "short", "cut", "ancount", "servfail", "nxdomain", "dup", "nxdomain-dup", "error-without-question", "wrong-id-then-tcp-closes", "truncated-wrong-id",
}

// classOn is the class of a state for an upstream configured with network nw.
func classOn(state string, nw forward.Network) string {
	if state == "tc-then-tcp" && nw == forward.NetworkUDP {
		// A UDP-only upstream's truncated reply is the answer: it is passed
		// on as it is.
		return "valid-tc"
	}

	switch state {
	case "up", "tc-then-tcp", "dup":
		return "valid"
	case "ancount":
		// Header counts beyond the end of the data: the DNS library's decoder
		// stops at the end of the message and yields the records that are
		// there (none), so this is a valid empty NOERROR reply.
		return "valid-empty"
	case "servfail", "nxdomain", "nxdomain-dup":
		return "valid-rcode"
	case "silent", "refuse", "close", "wrong-id-then-tcp-closes":
		// (The last one: the datagram is rejected, the retry over TCP ends
		// with a network error, and that is what the exchange fails with.)
		return "netfail"
	default:
		return "invalid"
	}
}

// upstream is one scripted DNS server.
type upstream struct {
	idx   int
	main  bool
	addr  netip.AddrPort
	nw    forward.Network
	// oneShotTCP: the upstream closes a stream after one reply, so that the
	// connection the resolver keeps for later is dead when it is next used.
	oneShotTCP bool
	mu    sync.Mutex
	state string
	// got logs the names this upstream received, with the transport.
	got []string

	// lastProbe is when the last health probe arrived.
	lastProbe time.Time

	// seg cuts TCP replies into segments (private to this upstream).
	seg *rand.Rand

	// seenGot is how much of got the harness has judged; cleanStreak counts
	// the latest operations in which this upstream took part that were one
	// exchange answered with one good UDP reply each (see judgeRetries).
	seenGot     int
	cleanStreak int
}

func (u *upstream) String() string {
	k := "fb"
	if u.main {
		k = "main"
	}

	if u.nw != forward.NetworkAny {
		return fmt.Sprintf("%s%d/%s", k, u.idx, u.nw)
	}

	return fmt.Sprintf("%s%d", k, u.idx)
}

func (u *upstream) class() string { return classOn(u.getState(), u.nw) }

func (u *upstream) setState(s string) {
	if s == "refuse" && u.nw == forward.NetworkTCP {
		// An upstream cannot note the receipt of what it refuses, and a
		// TCP-only one is sent nothing else: it closes after reading instead.
		s = "close"
	}
	u.mu.Lock()
	u.state = s
	u.mu.Unlock()
}

func (u *upstream) getState() string {
	u.mu.Lock()
	defer u.mu.Unlock()

	return u.state
}

func (u *upstream) record(name, tr string) {
	u.mu.Lock()
	u.got = append(u.got, strings.ToLower(name)+"/"+tr)
	if strings.EqualFold(name, hcDomain) {
		u.lastProbe = time.Now()
	}
	u.mu.Unlock()
}

func (u *upstream) received(name string) (n int) {
	u.mu.Lock()
	defer u.mu.Unlock()

	for _, g := range u.got {
		if strings.HasPrefix(g, strings.ToLower(name)+"/") {
			n++
		}
	}

	return n
}

// wantFrom is the outcome a query for name has when this upstream's reply is
// the answer.
func (u *upstream) wantFrom(name string) string {
	tag := u.idx
	if !u.main {
		tag += 100
	}
	switch st := u.getState(); st {
	case "servfail":
		return "rcode2"
	case "nxdomain", "nxdomain-dup":
		return "rcode3"
	case "ancount":
		return "rcode0"
	case "tc-then-tcp":
		// A UDP-only upstream's truncated reply is passed on as it is,
		// unless something stale in the socket made the resolver go to TCP
		// all the same.
		u.mu.Lock()
		defer u.mu.Unlock()
		for _, g := range u.got {
			if g == strings.ToLower(name)+"/tcp" {
				return fmt.Sprintf("answer-from-%d", tag)
			}
		}

		return "rcode0-tc"
	}

	return fmt.Sprintf("answer-from-%d", tag)
}

// reply builds the reply bytes for req over tr ("udp"/"tcp"); nil = no reply.
func (u *upstream) reply(req *dns.Msg, tr string) (raw [][]byte, closeAfter bool) {
	state := u.getState()
	q := req.Question[0]
	good := func() *dns.Msg {
		m := &dns.Msg{}
		m.SetReply(req)
		m.RecursionAvailable = true
		tag := byte(u.idx)
		if !u.main {
			tag += 100
		}
		if q.Qtype == dns.TypeA {
			m.Answer = append(m.Answer, &dns.A{
				Hdr: dns.RR_Header{Name: q.Name, Rrtype: dns.TypeA, Class: dns.ClassINET, Ttl: 60},
				A:   net.IPv4(10, tag, 0, 1),
			})
		}

		return m
	}
	pack := func(m *dns.Msg) []byte {
		b, err := m.Pack()
		if err != nil {
			panic(err)
		}

		return b
	}

	switch state {
	case "up":
		return [][]byte{pack(good())}, false
	case "dup":
		b := pack(good())
		if tr == "udp" {
			return [][]byte{b, b}, false
		}

		return [][]byte{b}, false
	case "silent", "refuse":
		return nil, false
	case "close":
		return nil, true
	case "wrong-id":
		m := good()
		m.Id ^= 0x5555

		return [][]byte{pack(m)}, false
	case "truncated-wrong-id":
		// A stray reply that also says it was truncated, on both transports.
		m := good()
		m.Id ^= 0x5555
		m.Truncated = true
		m.Answer = nil

		return [][]byte{pack(m)}, false
	case "wrong-id-then-tcp-closes":
		// Two faults in a row: a datagram that answers something else, and
		// a stream that ends before any reply.
		if tr == "tcp" {
			return nil, true
		}
		m := good()
		m.Id ^= 0x5555

		return [][]byte{pack(m)}, false
	case "wrong-name":
		m := good()
		m.Question[0].Name = "other.victim.test."
		for _, rr := range m.Answer {
			rr.Header().Name = "other.victim.test."
		}

		return [][]byte{pack(m)}, false
	case "wrong-type":
		m := good()
		m.Question[0].Qtype = dns.TypeAAAA
		m.Answer = nil

		return [][]byte{pack(m)}, false
	case "two-questions":
		m := good()
		m.Question = append(m.Question, dns.Question{Name: "second.test.", Qtype: dns.TypeA, Qclass: dns.ClassINET})

		return [][]byte{pack(m)}, false
	case "tc-then-tcp":
		m := good()
		if tr == "udp" {
			m.Truncated = true
			m.Answer = nil
		}

		return [][]byte{pack(m)}, false
	case "garbage":
		b := make([]byte, 24)
		binary.BigEndian.PutUint16(b, req.Id)
		for i := 2; i < len(b); i++ {
			b[i] = byte(0xa0 + i)
		}

		return [][]byte{b}, false
	case "short":
		// A bare header that claims one question; 17 octets so that it passes
		// the minimum-length test of the reader.
		b := make([]byte, 17)
		binary.BigEndian.PutUint16(b, req.Id)
		b[2] = 0x81
		b[3] = 0x80
		b[5] = 1
		b = b[:12]
		// The reader wants at least 17 octets; send a header that announces
		// a question and an answer and nothing else but five pad octets that
		// are themselves a truncated name.
		b = append(b, 3, 'x', 'y', 'z', 0xc0)

		return [][]byte{b}, false
	case "cut":
		// The beginning of the right reply, cut inside the question's name
		// or inside the answer record: what follows in the reader's buffer
		// are the request's own octets and those of earlier replies.  Cuts
		// between the end of the name and the end of the question are left
		// out: the DNS library's decoder takes a question without type or
		// class for a complete one, so such a reply decodes, from its own
		// bytes, as a valid shorter message.
		b := pack(good())
		nameEnd := 12 + len(q.Name) + 1
		if q.Name == "." {
			nameEnd = 12 + 1
		}
		qEnd := nameEnd + 4
		var ks []int
		for k := 17; k < len(b); k++ {
			if k < nameEnd || k > qEnd {
				ks = append(ks, k)
			}
		}
		if len(ks) == 0 {
			panic("cut: reply too short to be cut")
		}

		return [][]byte{b[:ks[u.seg.IntN(len(ks))]]}, false
	case "ancount":
		m := good()
		m.Answer = nil
		b := pack(m)
		b[7] = 2 // ANCOUNT=2, no records

		return [][]byte{b}, false
	case "error-without-question":
		// An error reply that does not echo the question (long enough to
		// pass the reader's minimum thanks to an OPT record): whose question
		// it answers cannot be told.
		m := good()
		m.Question, m.Answer = nil, nil
		m.Rcode = dns.RcodeRefused
		m.SetEdns0(1232, false)

		return [][]byte{pack(m)}, false
	case "servfail":
		m := good()
		m.Rcode = dns.RcodeServerFailure
		m.Answer = nil

		return [][]byte{pack(m)}, false
	case "nxdomain":
		m := good()
		m.Rcode = dns.RcodeNameError
		m.Answer = nil

		return [][]byte{pack(m)}, false
	case "nxdomain-dup":
		// A negative answer that arrives twice: the second copy waits in the
		// socket for whoever uses it next.
		m := good()
		m.Rcode = dns.RcodeNameError
		m.Answer = nil
		b := pack(m)
		if tr == "udp" {
			return [][]byte{b, b}, false
		}

		return [][]byte{b}, false
	}

	panic("bad state " + state)
}

func (u *upstream) serve(n *simnet.Net) (stop func()) {
	pc, err := n.ListenPacket(context.Background(), "udp", u.addr.String())
	if err != nil {
		panic(err)
	}
	l, err := n.Listen(context.Background(), "tcp", u.addr.String())
	if err != nil {
		panic(err)
	}

	go func() {
		buf := make([]byte, 65535)
		for {
			k, from, rerr := pc.ReadFrom(buf)
			if rerr != nil {
				return
			}
			req := &dns.Msg{}
			if req.Unpack(buf[:k]) != nil || len(req.Question) == 0 {
				continue
			}
			u.record(req.Question[0].Name, "udp")
			raws, _ := u.reply(req, "udp")
			for _, b := range raws {
				_, _ = pc.WriteTo(b, from)
			}
		}
	}()

	go func() {
		for {
			c, aerr := l.Accept()
			if aerr != nil {
				return
			}
			go func() {
				defer c.Close()
				for {
					var lb [2]byte
					if _, rerr := io.ReadFull(c, lb[:]); rerr != nil {
						return
					}
					b := make([]byte, binary.BigEndian.Uint16(lb[:]))
					if _, rerr := io.ReadFull(c, b); rerr != nil {
						return
					}
					req := &dns.Msg{}
					if req.Unpack(b) != nil || len(req.Question) == 0 {
						return
					}
					u.record(req.Question[0].Name, "tcp")
					raws, closeAfter := u.reply(req, "tcp")
					if closeAfter {
						return
					}
					for _, r := range raws {
						out := make([]byte, 2+len(r))
						binary.BigEndian.PutUint16(out, uint16(len(r)))
						copy(out[2:], r)
						// The reply arrives in one to three segments; the
						// first may end inside the length prefix.
						oneShot := u.oneShotTCP
						for len(out) > 0 {
							k := len(out)
							switch u.seg.IntN(4) {
							case 1:
								k = 1
							case 2:
								k = 1 + u.seg.IntN(len(out))
							}
							_, _ = c.Write(out[:k])
							out = out[k:]
							if len(out) > 0 {
								time.Sleep(time.Millisecond)
							}
						}
						if oneShot {
							// (The deferred Close ends the stream in good order.)
							return
						}
					}
				}
			}()
		}
	}()

	return func() {
		_ = pc.Close()
		_ = l.Close()
	}
}

// judgeRetries looks at what every upstream received during the operation
// that has just ended (a query or a health-check round; an upstream takes part
// in at most one exchange of it).  A message that came over UDP and over TCP
// was retried.  When the upstream is up and has been for the last maxBurst
// operations it took part in (one message over UDP and one good reply each),
// nothing is left over in the resolver's sockets and nothing explains the
// retry: the good reply to this message was taken for something else, or an
// earlier one for this.
// maxBurst is the largest number of concurrent queries.
const maxBurst = 4

func judgeRetries(s *kernel.Sim, all []*upstream) (ok bool) {
	for _, u := range all {
		u.mu.Lock()
		news := u.got[u.seenGot:]
		u.seenGot = len(u.got)
		state := u.state
		u.mu.Unlock()
		if len(news) == 0 {
			continue
		}

		udp, tcp := 0, 0
		for _, g := range news {
			if strings.HasSuffix(g, "/udp") {
				udp++
			} else {
				tcp++
			}
		}
		if state == "up" && u.cleanStreak >= maxBurst && udp == 1 && tcp > 0 {
			s.Failf("C06/reply-taken-for-another", "an upstream's good reply was not taken as the answer to the message it answers (retry over TCP with nothing left over from earlier exchanges)",
				"%s: %v although this and the %d exchanges before were each answered with one good UDP reply", u, news, maxBurst)

			return false
		}
		// After an exchange answered with one good UDP reply the socket it
		// used holds nothing: either the reply was read from a clean socket,
		// or something stale was read first, in which case that socket was
		// closed and the retry went over TCP.  A burst of concurrent queries
		// leaves as many pooled sockets, each of which may hold something
		// stale; that many clean exchanges later they are all clean or gone.
		if state == "up" && udp == 1 {
			u.cleanStreak++
		} else {
			u.cleanStreak = 0
		}
	}

	return true
}

type rw struct {
	msgs []*dns.Msg
}

func (w *rw) LocalAddr() net.Addr  { return &net.UDPAddr{IP: net.IP{198, 18, 0, 1}, Port: 53} }
func (w *rw) RemoteAddr() net.Addr { return &net.UDPAddr{IP: net.IP{203, 0, 113, 1}, Port: 4444} }
func (w *rw) WriteMsg(_ context.Context, _, resp *dns.Msg) error {
	w.msgs = append(w.msgs, resp.Copy())

	return nil
}

func run(s *kernel.Sim, prop, cfg string) {
	t := s.T
	// The IDs of the health-check probes: the same in a replay as in the
	// run, and never two alike (a duplicate reply left in a pooled socket
	// with the ID of a later probe would be a legitimate answer to it).
	dnsid.Pin(0)
	n := simnet.New(s)
	n.Faults = simnet.Faults{}

	nMain := t.Range(1, 3, "mains")
	nFB := t.Range(0, 2, "fallbacks")
	if prop == "C06" && nFB == 0 {
		nFB = 1
	}
	backoff := kernel.Pick(t, []time.Duration{10 * time.Second, time.Second, time.Minute, 0}, "backoff")

	// Most upstreams take both transports, some only one.
	networks := []forward.Network{forward.NetworkAny, forward.NetworkAny, forward.NetworkAny, forward.NetworkUDP, forward.NetworkTCP}
	var mains, fbs, all []*upstream
	var mainConf, fbConf []*forward.UpstreamPlainConfig
	for i := 0; i < nMain; i++ {
		u := &upstream{idx: i, main: true, addr: netip.MustParseAddrPort(fmt.Sprintf("198.51.100.%d:53", 10+i)), state: "up", seg: rand.New(rand.NewPCG(uint64(t.Choose(1<<30, "upstream-seed")), uint64(i)))}
		u.nw = kernel.Pick(t, networks, "network")
		u.oneShotTCP = t.Chance(1, 3, "tcp-one-shot")
		mains = append(mains, u)
		mainConf = append(mainConf, &forward.UpstreamPlainConfig{Network: u.nw, Address: u.addr, Timeout: time.Second})
	}
	for i := 0; i < nFB; i++ {
		u := &upstream{idx: i, addr: netip.MustParseAddrPort(fmt.Sprintf("198.51.100.%d:53", 50+i)), state: "up", seg: rand.New(rand.NewPCG(uint64(t.Choose(1<<30, "upstream-seed")), uint64(i)))}
		u.nw = kernel.Pick(t, networks, "network")
		u.oneShotTCP = t.Chance(1, 3, "tcp-one-shot")
		fbs = append(fbs, u)
		fbConf = append(fbConf, &forward.UpstreamPlainConfig{Network: u.nw, Address: u.addr, Timeout: time.Second})
	}
	all = append(append(all, mains...), fbs...)
	byAddr := map[string]*upstream{}
	for _, u := range all {
		byAddr[u.addr.String()] = u
		stop := u.serve(n)
		defer stop()
	}

	handlerIP := netip.MustParseAddr("198.18.0.1")
	s.Dial = func(network, addr string, _ time.Duration) (net.Conn, error) {
		u := byAddr[addr]
		if u != nil && u.getState() == "refuse" && network == "tcp" {
			return nil, &net.OpError{Op: "dial", Net: "tcp", Err: errors.New("connection refused")}
		}
		if network == "udp" {
			return n.DialUDP(addr, n.ClientAddr(handlerIP))
		}

		return n.Dial(addr, n.ClientAddr(handlerIP))
	}

	// The handler may probe its upstreams once while it is being constructed.
	initDur := kernel.Pick(t, []time.Duration{0, 0, 30 * time.Second}, "healthcheck-init")
	hconf := &forward.HandlerConfig{
		Logger:                     slog.New(slog.DiscardHandler),
		HealthcheckDomainTmpl:      hcDomain,
		UpstreamsAddresses:         mainConf,
		FallbackAddresses:          fbConf,
		HealthcheckBackoffDuration: backoff,
		HealthcheckInitDuration:    initDur,
	}
	var h *forward.Handler
	defer func() {
		if h != nil {
			_ = h.Close()
		}
	}()

	s.Logf("config mains=%d fallbacks=%d backoff=%v init=%v", nMain, nFB, backoff, initDur)

	// Reference state machine.
	active := map[*upstream]bool{}
	failedLo := map[*upstream]time.Time{}
	failedHi := map[*upstream]time.Time{}
	for _, m := range mains {
		active[m] = true
	}

	states := allStates
	if prop == "C06" {
		states = []string{"up", "up", "up", "garbage", "short", "cut", "cut", "ancount", "wrong-name", "two-questions", "tc-then-tcp", "dup", "nxdomain-dup", "wrong-id-then-tcp-closes"}
	}

	ctx := dnsserver.ContextWithServerInfo(context.Background(), &dnsserver.ServerInfo{Name: "sim", Addr: "x", Proto: dnsserver.ProtoDNS})
	// judgeRefresh runs one health-check round through call and advances the
	// reference state machine; it returns false after a violation.
	judgeRefresh := func(label string, desc []string, now time.Time, call func() error) bool {
		// ---- health-check round ----
		marks := map[*upstream]int{}
		for _, m := range mains {
			marks[m] = m.received(hcDomain)
		}
		rerr := call()
		synctest.Wait()
		s.Logf("%s t=%v refresh %v -> err=%v", label, time.Since(baseTime()), desc, rerr != nil)
		if nFB == 0 {
			for _, m := range mains {
				if m.received(hcDomain) != marks[m] {
					s.Failf("C17/probe-without-fallbacks", "health probe sent although no fallbacks are configured", "%s (%s)", m, label)
				}
			}

			return true
		}

		// When exactly the handler noted a failure is only known to lie
		// between the arrival of the probe and the return of Refresh; a
		// backoff boundary inside that window is not judged.
		end := time.Now()
		for _, m := range mains {
			probed := m.received(hcDomain) != marks[m]
			lo, failedBefore := failedLo[m]
			hi := failedHi[m]
			// The handler looks at this upstream at some instant between
			// the start and the end of the round.
			surelyIn := failedBefore && end.Sub(lo) < backoff
			surelyOut := !failedBefore || now.Sub(hi) >= backoff
			if !surelyIn && !surelyOut {
				s.Probe("backoff-boundary-uncertain")
				surelyIn, surelyOut = !probed, probed
			}

			if surelyIn {
				s.Probe("main-in-backoff-skipped")
				if probed {
					s.Failf("C17/probe-in-backoff", "main upstream probed before its backoff had elapsed",
						"%s failed between %v and %v ago, backoff %v", m, now.Sub(hi), now.Sub(lo), backoff)

					return false
				}
				active[m] = false

				continue
			}

			if !probed {
				s.Failf("C17/probe-missing", "main upstream out of backoff was not probed",
					"%s state=%s failed between %v and %v ago, backoff=%v", m, m.getState(), now.Sub(hi), now.Sub(lo), backoff)

				return false
			}

			if c := m.class(); c == "valid" || c == "valid-empty" || c == "valid-tc" {
				if !active[m] {
					s.Probe("main-recovered")
				}
				active[m] = true
				delete(failedLo, m)
				delete(failedHi, m)
			} else {
				active[m] = false
				m.mu.Lock()
				failedLo[m] = m.lastProbe
				m.mu.Unlock()
				failedHi[m] = end
				s.Fault("probe-failed-" + m.class())
			}
		}

		return true
	}

	if initDur > 0 {
		// Upstreams may be down at start-up.
		for _, u := range all {
			if t.Chance(1, 3, "state-change") {
				u.setState(kernel.Pick(t, states, "state"))
			}
		}
		var desc []string
		for _, u := range all {
			desc = append(desc, u.String()+"="+u.getState())
		}
		s.Probe("probed-at-construction")
		if !judgeRefresh("construction", desc, time.Now(), func() error { h = forward.NewHandler(hconf); return nil }) {
			return
		}
		if !judgeRetries(s, all) {
			return
		}
	} else {
		h = forward.NewHandler(hconf)
	}

	// In some runs every query has the same ID: a stale reply can then be told
	// from the right one by its question only.
	sameIDs := t.Chance(1, 3, "same-ids")
	nOps := t.Range(3, 30, "ops")
	qn := 0
	for i := 0; i < nOps && s.Failed() == nil; i++ {
		// State changes happen between operations.
		for _, u := range all {
			if t.Chance(1, 3, "state-change") {
				u.setState(kernel.Pick(t, states, "state"))
			}
		}
		var desc []string
		for _, u := range all {
			desc = append(desc, u.String()+"="+u.getState())
		}

		gap := kernel.Pick(t, []time.Duration{
			0, 100 * time.Millisecond, backoff - time.Millisecond, backoff, backoff + time.Millisecond, backoff / 2, 31 * time.Second,
		}, "gap")
		if gap > 0 {
			time.Sleep(gap)
		}
		now := time.Now()

		if t.Chance(1, 3, "refresh") {
			if !judgeRefresh(fmt.Sprintf("op %d", i), desc, now, func() error { return h.Refresh(ctx) }) {
				return
			}
			if !judgeRetries(s, all) {
				return
			}

			continue
		}

		// ---- queries: one, or a burst of concurrent ones ----
		nq := 1
		if t.Chance(1, 6, "burst") {
			nq = t.Range(2, maxBurst, "burst-size")
			s.Probe("concurrent-queries")
		}
		// Now and then a query too large for the buffer of a datagram
		// exchange (the resolver quietly takes TCP for it).
		oversize := t.Chance(1, 6, "oversized-query")
		// And, rarely, one too large for any buffer: it cannot be forwarded
		// at all.
		huge := nq == 1 && t.Chance(1, 20, "huge-query")
		for _, u := range all {
			// (Judged like any other query, which takes upstreams that note
			// the receipt of what they refuse: on TCP they cannot.)
			if st := u.getState(); st != "up" && st != "dup" {
				oversize = false
			}
		}
		type asked struct {
			name string
			req  *dns.Msg
			w    *rw
			serr error
		}
		var qs []*asked
		for k := 0; k < nq; k++ {
			qn++
			a := &asked{name: fmt.Sprintf("q%d.query.test.", qn), req: &dns.Msg{}, w: &rw{}}
			a.req.SetQuestion(a.name, dns.TypeA)
			a.req.Id = uint16(7000 + qn)
			if sameIDs {
				// As the clients of DoH and DoQ do.
				a.req.Id = 0
			}
			if huge {
				a.req.SetEdns0(4096, false)
				a.req.IsEdns0().Option = append(a.req.IsEdns0().Option, &dns.EDNS0_PADDING{Padding: make([]byte, 65500)})
				s.Probe("huge-query")
			} else if oversize {
				a.req.SetEdns0(4096, false)
				a.req.IsEdns0().Option = append(a.req.IsEdns0().Option, &dns.EDNS0_PADDING{Padding: make([]byte, 4200)})
				s.Probe("oversized-query")
			}
			qs = append(qs, a)
		}
		if nq == 1 {
			qs[0].serr = h.ServeDNS(ctx, qs[0].w, qs[0].req)
		} else {
			var wg sync.WaitGroup
			for _, a := range qs {
				wg.Add(1)
				go func() {
					defer wg.Done()
					a.serr = h.ServeDNS(ctx, a.w, a.req)
				}()
			}
			wg.Wait()
		}

		// Let the scripted upstreams finish logging what they received.
		synctest.Wait()

		if nq > 1 {
			// Several exchanges per upstream: the retry rule does not apply
			// to this operation nor, for these upstreams, to the next.
			for _, u := range all {
				u.mu.Lock()
				if len(u.got) > u.seenGot {
					u.cleanStreak = 0
				}
				u.seenGot = len(u.got)
				u.mu.Unlock()
			}
		}

		if huge {
			a := qs[0]
			got := 0
			for _, u := range all {
				got += u.received(a.name)
			}
			s.Logf("op %d t=%v huge query %s -> err=%v, %d responses, received by %d upstreams", i, time.Since(baseTime()), a.name, a.serr, len(a.w.msgs), got)
			if a.serr == nil || len(a.w.msgs) != 0 || got != 0 {
				s.Failf(prop+"/huge-query", "a query too large to be forwarded was not refused with an error",
					"%s: err=%v, %d responses, received by %d upstreams", a.name, a.serr, len(a.w.msgs), got)

				return
			}

			continue
		}

		judgeQuery := func(name string, req *dns.Msg, w *rw, serr error, burst bool) bool {
			var gotMains, gotFBs []*upstream
			for _, m := range mains {
				if m.received(name) > 0 {
					gotMains = append(gotMains, m)
				}
			}
			for _, f := range fbs {
				if f.received(name) > 0 {
					gotFBs = append(gotFBs, f)
				}
			}

			outcome := "error"
			if serr == nil && len(w.msgs) == 1 {
				r := w.msgs[0]
				outcome = fmt.Sprintf("rcode%d", r.Rcode)
				if r.Truncated {
					outcome += "-tc"
				}
				if len(r.Answer) == 1 {
					if a, ok := r.Answer[0].(*dns.A); ok {
						outcome = fmt.Sprintf("answer-from-%d", a.A.To4()[1])
					}
				}
				if len(r.Question) != 1 || !strings.EqualFold(r.Question[0].Name, name) || r.Question[0].Qtype != dns.TypeA || r.Id != req.Id {
					s.Failf(prop+"/accepted-mismatch", "a reply with another ID or question was passed to the client",
						"query %s id %d: got id %d question %v", name, req.Id, r.Id, r.Question)

					return false
				}
			} else if serr == nil {
				outcome = fmt.Sprintf("%d responses", len(w.msgs))
			}
			s.Logf("op %d t=%v query %s %v -> mains=%v fallbacks=%v outcome=%s err=%v", i, time.Since(baseTime()), name, desc, gotMains, gotFBs, outcome, serr)

			if !burst && !judgeRetries(s, all) {
				return false
			}

			nActive := 0
			for _, m := range mains {
				if active[m] {
					nActive++
				}
			}

			if len(gotMains) > 1 {
				s.Failf("C17/two-mains", "one query was sent to two main upstreams", "%v", gotMains)

				return false
			}
			for _, m := range gotMains {
				if !active[m] {
					s.Failf("C17/inactive-main-used", "query sent to a main upstream that is out of rotation",
						"%s (state %s), failed probe %v ago, backoff %v", m, m.getState(), now.Sub(failedLo[m]), backoff)

					return false
				}
			}
			if len(gotFBs) > 1 {
				s.Failf("C17/two-fallbacks", "one query was tried on more than one fallback", "%v", gotFBs)

				return false
			}

			expectFB := func(why string) {
				if nFB == 0 {
					if outcome != "error" {
						s.Failf("C17/no-fallback-answer", "client got an answer although the main failed and no fallback exists ("+why+")", "%s", outcome)
					}

					return
				}
				if len(gotFBs) != 1 {
					s.Failf("C17/fallback-not-tried", "query was not tried on a fallback ("+why+")",
						"query %s: fallbacks that received it: %v, outcome %s", name, gotFBs, outcome)

					return
				}
				f := gotFBs[0]
				s.Probe("fallback-used")
				switch f.class() {
				case "valid":
					if outcome != fmt.Sprintf("answer-from-%d", 100+f.idx) {
						s.Failf("C17/fallback-answer-lost", "fallback replied but the client did not get its answer ("+why+")",
							"fallback %s state %s, outcome %s", f, f.getState(), outcome)
					}
				case "valid-rcode", "valid-empty", "valid-tc":
					want := f.wantFrom(name)
					if outcome != want {
						s.Failf("C17/fallback-answer-lost", "fallback replied but the client did not get its answer ("+why+")",
							"fallback %s state %s, outcome %s", f, f.getState(), outcome)
					}
				default:
					if outcome != "error" {
						s.Failf(prop+"/bad-reply-accepted", "client got an answer although main and fallback both failed",
							"fallback %s state %s, outcome %s", f, f.getState(), outcome)
					}
				}
			}

			if nActive == 0 {
				if len(gotMains) != 0 {
					return false
				}
				s.Probe("no-main-active")
				expectFB("no main upstream healthy")

				return true
			}

			if len(gotMains) != 1 {
				s.Failf("C17/main-not-tried", "query was not sent to an active main upstream",
					"active mains %d, received by %v", nActive, gotMains)

				return false
			}

			m := gotMains[0]
			switch m.class() {
			case "valid":
				if outcome != fmt.Sprintf("answer-from-%d", m.idx) || len(gotFBs) != 0 {
					s.Failf("C17/main-answer-lost", "main upstream replied but the client did not get its answer",
						"main %s state %s: outcome %s, fallbacks tried %v", m, m.getState(), outcome, gotFBs)

					return false
				}
				s.Probe("main-answered")
			case "valid-rcode", "valid-empty", "valid-tc":
				want := m.wantFrom(name)
				if outcome != want || len(gotFBs) != 0 {
					s.Failf("C17/main-answer-lost", "main upstream replied but the client did not get its answer",
						"main %s state %s: outcome %s, fallbacks tried %v", m, m.getState(), outcome, gotFBs)

					return false
				}
			case "netfail":
				s.Fault("main-" + m.getState())
				expectFB("main failed with a network error")
			default:
				s.Fault("main-reply-" + m.getState())
				// The reply must not be accepted: SERVFAIL, or a fallback's answer.
				ok := outcome == "error"
				for _, f := range gotFBs {
					if outcome == fmt.Sprintf("answer-from-%d", 100+f.idx) {
						ok = true
					}
				}
				if !ok {
					s.Failf(prop+"/bad-reply-accepted", "an upstream reply that does not match the query (or does not decode from its own bytes) was accepted",
						"main %s state %s: outcome %s", m, m.getState(), outcome)

					return false
				}
			}

			return true
		}
		for _, a := range qs {
			if !judgeQuery(a.name, a.req, a.w, a.serr, nq > 1) {
				return
			}
		}
	}

	s.MarkNontrivial()
}

func baseTime() time.Time { return time.Date(2000, 1, 1, 0, 0, 0, 0, time.UTC) }

func TestWorker(t *testing.T) {
	kernel.WorkerMain(t, &kernel.Engine{Name: "fwdsim", Run: run})
}
