// Package rlsim simulates the rate limiter (property C09): the real
// ratelimit.Backoff and ratelimit.Middleware are driven through tape-chosen
// event histories on the simulated clock and compared with a sliding-window
// log reference model.
package rlsim

import (
	"context"
	"fmt"
	"net"
	"net/netip"
	"strings"
	"testing"
	"time"

	"github.com/AdguardTeam/AdGuardDNS/internal/dnsserver"
	"github.com/AdguardTeam/AdGuardDNS/internal/dnsserver/ratelimit"
	"github.com/AdguardTeam/AdGuardDNS/verif/kernel"
	"github.com/c2h5oh/datasize"
	"github.com/miekg/dns"
)

// ---- reference model, written from the statement and doc/configuration.md ----

type keyState struct {
	events   []time.Time // countable events
	firstHit time.Time   // start of the current backoff accounting window
	hits     int
	hasHits  bool
}

type cfg struct {
	limit4, limit6 int
	ivl4, ivl6     time.Duration
	len4, len6     int
	period         time.Duration
	duration       time.Duration
	backoffCount   int
	refuseANY      bool
	allow          []netip.Prefix
	respEst        int
}

// String keeps pointers (the zone of a netip.Addr) out of the trace.
func (c cfg) String() string {
	return fmt.Sprintf("{limit4:%d limit6:%d ivl4:%v ivl6:%v len4:%d len6:%d period:%v duration:%v backoffCount:%d refuseANY:%v allow:%v respEst:%d}",
		c.limit4, c.limit6, c.ivl4, c.ivl6, c.len4, c.len6, c.period, c.duration, c.backoffCount, c.refuseANY, fmt.Sprint(c.allow), c.respEst)
}

type refModel struct {
	c    cfg
	keys map[string]*keyState

	// uncertain is set when a decision depended on a timestamp lying exactly
	// on a boundary (age == interval, or now == end of backoff window), where
	// the statement does not say which side is meant.
	uncertain bool
}

func (m *refModel) key(ip netip.Addr) string {
	l := m.c.len4
	if ip.Is6() {
		l = m.c.len6
	}
	p, err := ip.Prefix(l)
	if err != nil {
		panic(err)
	}

	return p.String()
}

func (m *refModel) allowed(ip netip.Addr) bool {
	for _, p := range m.c.allow {
		if p.Contains(ip) {
			return true
		}
	}

	return false
}

func (m *refModel) hitsAlive(ks *keyState, now time.Time) bool {
	if !ks.hasHits {
		return false
	}

	end := ks.firstHit.Add(m.c.duration)
	if now.Equal(end) {
		m.uncertain = true
	}

	return !now.After(end)
}

// event evaluates one countable event and reports whether it is over the
// limit.
func (m *refModel) event(ip netip.Addr, now time.Time) (over, backoff bool) {
	k := m.key(ip)
	ks := m.keys[k]
	if ks == nil {
		ks = &keyState{}
		m.keys[k] = ks
	}

	if m.hitsAlive(ks, now) && ks.hits >= m.c.backoffCount {
		return false, true
	}

	limit, ivl := m.c.limit4, m.c.ivl4
	if ip.Is6() {
		limit, ivl = m.c.limit6, m.c.ivl6
	}

	n := 0
	for _, e := range ks.events {
		age := now.Sub(e)
		if age == ivl {
			m.uncertain = true
		}
		if age <= ivl {
			n++
		}
	}

	ks.events = append(ks.events, now)
	if len(ks.events) > 64 {
		ks.events = ks.events[len(ks.events)-64:]
	}

	over = n >= limit
	if over {
		if m.hitsAlive(ks, now) {
			ks.hits++
		} else {
			ks.hasHits = true
			ks.firstHit = now
			ks.hits = 1
		}
	}

	return over, false
}

// query decides a query and, when it is answered, accounts for the response
// size.  It returns whether the query must be dropped.
func (m *refModel) query(ip netip.Addr, qt uint16, respLen int, now time.Time) (drop bool, why string) {
	if m.c.refuseANY && qt == dns.TypeANY {
		return true, "any"
	}

	if m.allowed(ip) {
		return false, "allowlisted"
	}

	over, backoff := m.event(ip, now)
	if backoff {
		return true, "backoff"
	}

	if over {
		return true, "over-limit"
	}

	for i := 0; i < respLen/m.c.respEst; i++ {
		m.event(ip, now)
	}

	return false, "ok"
}

// ---- world ----

type rw struct {
	raddr   net.Addr
	written []*dns.Msg
}

func (w *rw) LocalAddr() net.Addr  { return &net.UDPAddr{IP: net.IP{127, 0, 0, 1}, Port: 53} }
func (w *rw) RemoteAddr() net.Addr { return w.raddr }
func (w *rw) WriteMsg(_ context.Context, _, resp *dns.Msg) error {
	w.written = append(w.written, resp)

	return nil
}

var clients = []string{
	"192.0.2.1", "192.0.2.77", "192.0.3.1", "198.51.100.9", "203.0.113.5",
	"2001:db8::1", "2001:db8::2", "2001:db8:0:1::1", "2001:db8:1::1",
}

func mkResp(req *dns.Msg, size int) (resp *dns.Msg) {
	resp = (&dns.Msg{}).SetReply(req)
	for resp.Len() < size {
		n := size - resp.Len()
		if n > 200 {
			n = 200
		}
		resp.Answer = append(resp.Answer, &dns.TXT{
			Hdr: dns.RR_Header{Name: req.Question[0].Name, Rrtype: dns.TypeTXT, Class: dns.ClassINET, Ttl: 10},
			Txt: []string{strings.Repeat("x", n)},
		})
	}

	return resp
}

func run(s *kernel.Sim, _, batch string) {
	t := s.T
	c := cfg{
		limit4:       t.Range(1, 4, "limit4"),
		limit6:       t.Range(1, 4, "limit6"),
		ivl4:         kernel.Pick(t, []time.Duration{time.Second, 10 * time.Second}, "ivl4"),
		ivl6:         kernel.Pick(t, []time.Duration{time.Second, 5 * time.Second}, "ivl6"),
		len4:         kernel.Pick(t, []int{24, 16, 32, 8}, "len4"),
		len6:         kernel.Pick(t, []int{64, 48, 128, 32}, "len6"),
		backoffCount: t.Range(1, 3, "backoff-count"),
		refuseANY:    t.Chance(1, 2, "refuse-any"),
		respEst:      100,
	}
	// The period is meant to span several intervals.
	c.period = kernel.Pick(t, []time.Duration{30 * time.Second, time.Minute, 20 * time.Second}, "period")
	c.duration = kernel.Pick(t, []time.Duration{c.period, 2 * c.period, 90 * time.Second}, "duration")
	if t.Chance(1, 2, "allowlist") {
		c.allow = append(c.allow, netip.MustParsePrefix("198.51.100.0/24"))
		if t.Chance(1, 2, "allowlist6") {
			c.allow = append(c.allow, netip.MustParsePrefix("2001:db8:1::/48"))
		}
	}

	s.Logf("config %v", c)

	var persistent, dynamic []netip.Prefix
	if len(c.allow) > 0 {
		persistent = c.allow[:1]
		dynamic = c.allow[1:]
	}

	allowlist := ratelimit.NewDynamicAllowlist(persistent, dynamic)
	bo := ratelimit.NewBackoff(&ratelimit.BackoffConfig{
		Allowlist:            allowlist,
		Period:               c.period,
		Duration:             c.duration,
		Count:                uint(c.backoffCount),
		ResponseSizeEstimate: datasize.ByteSize(c.respEst),
		IPv4Count:            uint(c.limit4),
		IPv4Interval:         c.ivl4,
		IPv4SubnetKeyLen:     c.len4,
		IPv6Count:            uint(c.limit6),
		IPv6Interval:         c.ivl6,
		IPv6SubnetKeyLen:     c.len6,
		RefuseANY:            c.refuseANY,
	})

	kernel.KeepAlive(bo)

	mw, err := ratelimit.NewMiddleware(&ratelimit.MiddlewareConfig{
		RateLimit: bo,
		Protocols: []dnsserver.Protocol{dnsserver.ProtoDNS},
	})
	if err != nil {
		panic(err)
	}

	var nextCalls int
	var respSize int
	h := mw.Wrap(dnsserver.HandlerFunc(func(ctx context.Context, w dnsserver.ResponseWriter, req *dns.Msg) error {
		nextCalls++

		return w.WriteMsg(ctx, req, mkResp(req, respSize))
	}))

	m := &refModel{c: c, keys: map[string]*keyState{}}
	ctx := dnsserver.ContextWithServerInfo(context.Background(), &dnsserver.ServerInfo{
		Name: "sim", Addr: "127.0.0.1:53", Proto: dnsserver.ProtoDNS,
	})

	// Swarm: each run uses a subset of clients and of time steps.
	var pool []netip.Addr
	for _, a := range clients {
		if t.Chance(1, 2, "use-client") {
			pool = append(pool, netip.MustParseAddr(a))
		}
	}
	if len(pool) == 0 {
		pool = []netip.Addr{netip.MustParseAddr(clients[0])}
	}

	gaps := func(ivl time.Duration) []time.Duration {
		return []time.Duration{
			0, time.Nanosecond, ivl / 2, ivl - time.Nanosecond, ivl, ivl + time.Nanosecond,
			c.period - time.Nanosecond, c.period, c.period + time.Nanosecond,
			c.duration - time.Nanosecond, c.duration, c.duration + time.Nanosecond, time.Millisecond,
			ivl / 10,
		}
	}

	n := t.Range(3, 40, "events")
	for i := 0; i < n; i++ {
		ip := kernel.Pick(t, pool, "client")
		ivl := c.ivl4
		if ip.Is6() {
			ivl = c.ivl6
		}

		gap := kernel.Pick(t, gaps(ivl), "gap")
		if gap > 0 {
			time.Sleep(gap)
		}

		if t.Chance(1, 10, "allowlist-update") {
			// The dynamic part of the allowlist is refreshed from the backend.
			dyn := kernel.Pick(t, [][]netip.Prefix{
				nil,
				{netip.MustParsePrefix("2001:db8:1::/48")},
				{netip.MustParsePrefix("203.0.113.0/24")},
				{netip.MustParsePrefix("192.0.2.0/28"), netip.MustParsePrefix("2001:db8::/64")},
			}, "dynamic-allowlist")
			allowlist.Update(dyn)
			m.c.allow = append(append([]netip.Prefix(nil), persistent...), dyn...)
			s.Logf("allowlist updated: dynamic part now %v", dyn)
			s.Probe("allowlist-updated")
		}

		qt := kernel.Pick(t, []uint16{dns.TypeA, dns.TypeA, dns.TypeAAAA, dns.TypeANY, dns.TypeTXT}, "qtype")
		respSize = kernel.Pick(t, []int{60, 60, 99, 100, 101, 250, 399, 1000}, "resp-size")

		req := &dns.Msg{}
		req.SetQuestion(fmt.Sprintf("q%d.example.", i), qt)
		w := &rw{raddr: &net.UDPAddr{IP: ip.AsSlice(), Port: 1234}}

		now := time.Now()
		m.uncertain = false
		nextCalls = 0
		serr := h.ServeDNS(ctx, w, req)
		if serr != nil {
			s.Failf("C09/error", "rate-limit middleware returned an error", "event %d: %v", i, serr)

			return
		}

		var actualLen int
		if len(w.written) > 0 {
			actualLen = w.written[0].Len()
		} else {
			actualLen = mkResp(req, respSize).Len()
		}

		wantDrop, why := m.query(ip, qt, actualLen, now)
		gotDrop := len(w.written) == 0

		s.Logf("event %d: +%v t=%v %s qt=%d resp=%dB -> dropped=%v (model: %v, %s)",
			i, gap, now.Sub(time.Date(2000, 1, 1, 0, 0, 0, 0, time.UTC)), ip, qt, actualLen, gotDrop, wantDrop, why)

		if wantDrop {
			s.Probe("drop-" + why)
		}

		if m.uncertain {
			// A timestamp lay exactly on a boundary; resynchronise the model
			// with what the limiter did by not judging this event.  The
			// model keeps its own decision for its state, so a later
			// mismatch caused only by this ambiguity is avoided by ending
			// the run here.
			s.Probe("boundary-exact-ended-run")

			return
		}

		if gotDrop != wantDrop {
			kind := "query dropped that the window admits"
			if wantDrop {
				kind = "query answered that must be dropped (" + why + ")"
			}
			s.Failf("C09/decision", kind,
				"event %d at t=%v client %s key %s qtype %d: dropped=%v, reference says dropped=%v (%s); config %v",
				i, now.Sub(time.Date(2000, 1, 1, 0, 0, 0, 0, time.UTC)), ip, m.key(ip), qt, gotDrop, wantDrop, why, c)

			return
		}

		if gotDrop && nextCalls != 0 {
			s.Failf("C09/drop-side-effect", "dropped query still reached the next handler", "event %d", i)

			return
		}

		if !gotDrop && (nextCalls != 1 || len(w.written) != 1) {
			s.Failf("C09/answer-count", "answered query did not produce exactly one response",
				"event %d: next handler calls=%d responses=%d", i, nextCalls, len(w.written))

			return
		}
	}

	s.MarkNontrivial()
}

func TestWorker(t *testing.T) {
	kernel.WorkerMain(t, &kernel.Engine{Name: "rlsim", Run: run})
}
