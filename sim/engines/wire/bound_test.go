package wire

import (
	"context"
	"fmt"
	"io"
	"log/slog"
	"net"
	"net/netip"
	"sync"

	"github.com/AdguardTeam/AdGuardDNS/internal/bindtodevice"
	"github.com/AdguardTeam/AdGuardDNS/internal/dnsserver/netext"
	"github.com/AdguardTeam/AdGuardDNS/verif/kernel"
	"github.com/AdguardTeam/AdGuardDNS/verif/simnet"
	"github.com/AdguardTeam/AdGuardDNS/verif/verifsim"
)

// ---- interface-bound listeners (internal/bindtodevice) ----
//
// In production a server configured with bind_interfaces does not open
// sockets of its own: one socket per (interface, port), bound to the
// unspecified address, reads every datagram and accepts every connection and
// hands them, by destination address, to the channel-backed listeners that the
// servers use as their netext.ListenConfig.  The real manager, interface
// listeners, channel listeners and packet connections run here; the sockets
// they open come from the simulated network (ReadMsgUDP with the original
// destination in a control message, WriteMsgUDP with the source address in
// one).

// simIfaces is the only interface of the simulated host.
type simIfaces struct{}

type simIface struct{}

// Subnets implements the bindtodevice.NetInterface interface for simIface.
func (simIface) Subnets() (subnets []netip.Prefix, err error) {
	return []netip.Prefix{netip.MustParsePrefix("198.18.0.0/24")}, nil
}

// InterfaceByName implements the bindtodevice.InterfaceStorage interface for
// simIfaces.
func (simIfaces) InterfaceByName(name string) (iface bindtodevice.NetInterface, err error) {
	if name != "sim0" {
		return nil, fmt.Errorf("no interface %q", name)
	}

	return simIface{}, nil
}

type logErrColl struct{ s *kernel.Sim }

// Collect implements the errcoll.Interface interface for logErrColl.
func (c logErrColl) Collect(_ context.Context, err error) {
	// Not logged: at shutdown the reading goroutines report their closed
	// sockets in an order the Go scheduler decides.
	c.s.Probe("bindtodevice-error-collected")
}

// bound is the interface-listener manager of one run.
type bound struct {
	mgr *bindtodevice.Manager

	mu      sync.Mutex
	closers []io.Closer
}

const (
	boundDNSSubnet  = "198.18.0.0/29"
	boundDNS2Subnet = "198.18.0.8/29"
)

// startBound creates the manager; listenConfig must be called for every
// server before start.
func startBound(s *kernel.Sim, n *simnet.Net, chanBuf int) (b *bound) {
	b = &bound{}
	b.mgr = bindtodevice.NewManager(&bindtodevice.ManagerConfig{
		Logger:            slog.New(slog.NewTextHandler(io.Discard, nil)),
		InterfaceStorage:  simIfaces{},
		ErrColl:           logErrColl{s: s},
		ChannelBufferSize: chanBuf,
	})

	verifsim.InstallNet(&verifsim.NetHooks{
		Listen: func(ctx context.Context, network, addr string) (l net.Listener, err error) {
			l, err = n.Listen(ctx, network, addr)
			if err == nil {
				b.keep(l)
			}

			return l, err
		},
		ListenPacket: func(ctx context.Context, network, addr string) (c net.PacketConn, err error) {
			c, err = n.ListenPacket(ctx, network, addr)
			if err == nil {
				b.keep(c)
			}

			return c, err
		},
	})

	for _, port := range []uint16{53, 853} {
		err := b.mgr.Add(bindtodevice.ID(fmt.Sprintf("if%d", port)), "sim0", port, nil)
		if err != nil {
			panic(err)
		}
	}

	return b
}

func (b *bound) keep(c io.Closer) {
	b.mu.Lock()
	defer b.mu.Unlock()

	b.closers = append(b.closers, c)
}

// listenConfig returns the listen configuration of a server that takes what
// arrives for subnet on port.
func (b *bound) listenConfig(port uint16, subnet string) (lc netext.ListenConfig, addr string) {
	c, err := b.mgr.ListenConfig(bindtodevice.ID(fmt.Sprintf("if%d", port)), netip.MustParsePrefix(subnet))
	if err != nil {
		panic(err)
	}

	return c, c.Addr().String()
}

func (b *bound) start() {
	err := b.mgr.Start(context.Background())
	if err != nil {
		panic(err)
	}
}

// shutdown stops the manager and closes its sockets, which is what ends its
// reading goroutines.
func (b *bound) shutdown() {
	_ = b.mgr.Shutdown(context.Background())

	b.mu.Lock()
	defer b.mu.Unlock()

	for _, c := range b.closers {
		_ = c.Close()
	}

	verifsim.InstallNet(nil)
}
