// Package wire simulates the DNS servers of internal/dnsserver on the
// simulated network (properties C01, C06, C08 and the pipeline part of C18):
// real ServerDNS (UDP+TCP), ServerTLS, ServerHTTPS and ServerQUIC over
// simnet, a deterministic pipeline function as handler, hand-made and
// library clients for every transport.
package wire

import (
	"context"
	"crypto/ecdsa"
	"crypto/elliptic"
	"crypto/rand"
	"crypto/tls"
	"crypto/x509"
	"crypto/x509/pkix"
	"encoding/binary"
	"fmt"
	"hash/fnv"
	"math/big"
	mrand "math/rand/v2"
	"net"
	"net/netip"
	"reflect"
	"strings"
	"sync"
	"time"

	"github.com/AdguardTeam/AdGuardDNS/internal/dnsmsg"
	"github.com/AdguardTeam/AdGuardDNS/internal/dnsserver"
	"github.com/AdguardTeam/AdGuardDNS/verif/kernel"
	"github.com/AdguardTeam/AdGuardDNS/verif/simnet"
	"github.com/ameshkov/dnscrypt/v2"
	"github.com/miekg/dns"
	"github.com/quic-go/quic-go"
	"github.com/quic-go/quic-go/http3"
	"golang.org/x/crypto/curve25519"
	"golang.org/x/crypto/nacl/box"
)

// ---- certificate (one per process, valid at bubble time) ----

var (
	certOnce   sync.Once
	serverCert tls.Certificate
)

func testCert() tls.Certificate {
	certOnce.Do(func() {
		key, err := ecdsa.GenerateKey(elliptic.P256(), rand.Reader)
		if err != nil {
			panic(err)
		}
		tmpl := &x509.Certificate{
			SerialNumber:          big.NewInt(1),
			Subject:               pkix.Name{Organization: []string{"verif sim"}},
			NotBefore:             time.Date(1990, 1, 1, 0, 0, 0, 0, time.UTC),
			NotAfter:              time.Date(2100, 1, 1, 0, 0, 0, 0, time.UTC),
			KeyUsage:              x509.KeyUsageDigitalSignature | x509.KeyUsageCertSign,
			ExtKeyUsage:           []x509.ExtKeyUsage{x509.ExtKeyUsageServerAuth},
			BasicConstraintsValid: true,
			IsCA:                  true,
			DNSNames:              []string{"dns.sim.test", "*.d.sim.test"},
		}
		der, err := x509.CreateCertificate(rand.Reader, tmpl, tmpl, &key.PublicKey, key)
		if err != nil {
			panic(err)
		}
		serverCert = tls.Certificate{Certificate: [][]byte{der}, PrivateKey: key}
	})

	return serverCert
}

// ---- the pipeline function ----

// pipeline is the deterministic resolver pipeline behind every server: the
// response is a function of the question alone, so a response identifies its
// question and transports can be compared.
//
// Names of the form "s<N>[o].size.test." request a response of about N bytes
// (with an OPT record of its own when the "o" is present); "nowrite..." makes
// the handler write nothing; "err..." makes it return an error; "badresp..."
// makes it write a response that cannot be packed and return the writer's
// error (plain DNS and DoT only: the other servers pack after the handler).
type pipeline struct {
	mu    sync.Mutex
	calls int

	// gate, if set, is called inside the handler (pipeline limiting).
	gate func(remote net.Addr, req *dns.Msg)

	// slow makes the handler take simulated time that depends on the
	// question.
	slow bool

	// observe, if set, is called inside the handler with the request's
	// context (what the transport tells the handler about the request).
	observe func(ctx context.Context, rw dnsserver.ResponseWriter, req *dns.Msg)

	// cloner, if set, is the production message cloner: the handler writes a
	// clone of its response, as the caches of the real stack do, and the
	// servers dispose of what they have written into the same pools.
	cloner *dnsmsg.Cloner
}

func hashQ(q dns.Question) uint32 {
	h := fnv.New32a()
	_, _ = h.Write([]byte(strings.ToLower(q.Name)))
	var b [4]byte
	binary.BigEndian.PutUint16(b[:2], q.Qtype)
	binary.BigEndian.PutUint16(b[2:], q.Qclass)
	_, _ = h.Write(b[:])

	return h.Sum32()
}

// answerFor builds the pipeline's answer sections for q.
func answerFor(q dns.Question) (rcode int, an, ns, ex []dns.RR, ownOPT int, mode string) {
	lname := strings.ToLower(q.Name)
	labels := dns.SplitDomainName(lname)
	h := hashQ(q)

	txt := func(i, n int) dns.RR {
		var parts []string
		for n > 0 {
			k := n
			if k > 200 {
				k = 200
			}
			parts = append(parts, strings.Repeat(string(rune('a'+i%26)), k))
			n -= k
		}

		return &dns.TXT{Hdr: dns.RR_Header{Name: q.Name, Rrtype: dns.TypeTXT, Class: dns.ClassINET, Ttl: 60}, Txt: parts}
	}

	if len(labels) > 0 {
		switch {
		case strings.HasPrefix(labels[0], "nowrite"):
			return 0, nil, nil, nil, 0, "nowrite"
		case strings.HasPrefix(labels[0], "err"):
			return 0, nil, nil, nil, 0, "err"
		case strings.HasPrefix(labels[0], "badresp"):
			return 0, nil, nil, nil, 0, "errwrite"
		case len(labels) >= 3 && labels[len(labels)-2] == "size" && strings.HasPrefix(labels[0], "s"):
			var size int
			spec := labels[0][1:]
			// "o": an OPT of the handler's own; "op": with a padding option in
			// it when the client may be sent one.
			if strings.HasSuffix(spec, "op") {
				ownOPT = 2
			} else if strings.HasSuffix(spec, "o") {
				ownOPT = 1
			}
			spec = strings.TrimRight(spec, "op")
			_, _ = fmt.Sscanf(spec, "%d", &size)
			// Header 12 + question; each TXT RR costs name(2, compressed)+10+len+ceil(len/255).
			remaining := size - 12 - (len(q.Name) + 1 + 4)
			i := 0
			for remaining > 14 {
				n := remaining - 13
				if n > 1000 {
					n = 1000
				}
				n -= (n + 199) / 200
				if n < 1 {
					n = 1
				}
				rr := txt(i, n)
				an = append(an, rr)
				remaining -= 12 + n + (n+199)/200
				i++
			}
			if h%3 == 0 && len(an) > 2 {
				// Spread over sections.
				ns = append(ns, an[len(an)-1])
				an = an[:len(an)-1]
			}

			return dns.RcodeSuccess, an, ns, nil, ownOPT, "size"
		}
	}

	switch h % 8 {
	case 0:
		rcode = dns.RcodeNameError
	case 1:
		rcode = dns.RcodeServerFailure
	case 2:
		rcode = dns.RcodeRefused
	default:
		rcode = dns.RcodeSuccess
	}

	n := int(h>>8) % 6
	if rcode != dns.RcodeSuccess {
		n = 0
	}
	for i := 0; i < n; i++ {
		hdr := dns.RR_Header{Name: q.Name, Class: dns.ClassINET, Ttl: 30 + uint32(i)}
		switch (int(h>>4) + i) % 5 {
		case 0:
			hdr.Rrtype = dns.TypeA
			an = append(an, &dns.A{Hdr: hdr, A: net.IPv4(10, byte(h>>16), byte(h>>8), byte(i))})
		case 1:
			hdr.Rrtype = dns.TypeAAAA
			an = append(an, &dns.AAAA{Hdr: hdr, AAAA: net.IP{0x20, 1, 0xd, 0xb8, byte(h >> 24), byte(h >> 16), byte(h >> 8), byte(h), 0, 0, 0, 0, 0, 0, 0, byte(i)}})
		case 2:
			an = append(an, txt(i, 1+int(h>>12)%300))
		case 3:
			hdr.Rrtype = dns.TypeCNAME
			an = append(an, &dns.CNAME{Hdr: hdr, Target: fmt.Sprintf("c%d-%08x.target.test.", i, h)})
		default:
			hdr.Rrtype = dns.TypeMX
			an = append(an, &dns.MX{Hdr: hdr, Preference: uint16(i), Mx: fmt.Sprintf("mx%d-%08x.target.test.", i, h)})
		}
	}

	if rcode == dns.RcodeNameError || (rcode == dns.RcodeSuccess && n == 0) {
		ns = append(ns, &dns.SOA{
			Hdr: dns.RR_Header{Name: "test.", Rrtype: dns.TypeSOA, Class: dns.ClassINET, Ttl: 60},
			Ns:  "ns.test.", Mbox: "h.test.", Serial: h, Refresh: 1, Retry: 2, Expire: 3, Minttl: 4,
		})
	}

	if h%7 == 0 && rcode == dns.RcodeSuccess {
		ex = append(ex, &dns.A{
			Hdr: dns.RR_Header{Name: "glue.test.", Rrtype: dns.TypeA, Class: dns.ClassINET, Ttl: 99},
			A:   net.IPv4(192, 0, 2, byte(h)),
		})
	}

	if h%5 == 0 {
		ownOPT = 1
	}

	return rcode, an, ns, ex, ownOPT, "normal"
}

func (p *pipeline) ServeDNS(ctx context.Context, rw dnsserver.ResponseWriter, req *dns.Msg) (err error) {
	p.mu.Lock()
	p.calls++
	p.mu.Unlock()

	if p.gate != nil {
		p.gate(rw.RemoteAddr(), req)
	}
	if p.observe != nil {
		p.observe(ctx, rw, req)
	}

	q := req.Question[0]
	rcode, an, ns, ex, ownOPT, mode := answerFor(q)
	if p.slow {
		// Resolution takes time, differently per name: answers complete out
		// of order, and connections end while queries are in flight.
		if d := []time.Duration{0, 0, time.Millisecond, 40 * time.Millisecond, 900 * time.Millisecond}[hashQ(q)/7%5]; d > 0 {
			time.Sleep(d)
		}
	}
	switch mode {
	case "nowrite":
		return nil
	case "err":
		return fmt.Errorf("pipeline: simulated failure for %s", q.Name)
	case "errwrite":
		// A response that cannot be put on the wire (a character string of
		// more than 255 octets): the writers of the datagram and stream
		// servers fail, and the handler passes their error on.
		bad := &dns.Msg{}
		bad.SetReply(req)
		bad.Answer = append(bad.Answer, &dns.TXT{
			Hdr: dns.RR_Header{Name: q.Name, Rrtype: dns.TypeTXT, Class: dns.ClassINET, Ttl: 60},
			Txt: []string{strings.Repeat("x", 300)},
		})

		return rw.WriteMsg(ctx, req, bad)
	}

	resp := &dns.Msg{}
	resp.SetRcode(req, rcode)
	resp.RecursionAvailable = true
	resp.Answer, resp.Ns, resp.Extra = an, ns, ex
	if ownOPT > 0 {
		// A handler that brings an OPT of its own, with odd settings.
		resp.SetEdns0(4096, true)
	}
	if ownOPT == 2 {
		// With a padding option in it, as a forwarded response may have,
		// when the client asked for padding on a transport that has it.
		if reqOpt := req.IsEdns0(); reqOpt != nil && dnsserver.MustServerInfoFromContext(ctx).Proto.HasPaddingSupport() {
			for _, o := range reqOpt.Option {
				if _, ok := o.(*dns.EDNS0_PADDING); ok {
					resp.IsEdns0().Option = append(resp.IsEdns0().Option, &dns.EDNS0_PADDING{Padding: make([]byte, hashQ(q)%3)})
				}
			}
		}
	}

	if p.cloner != nil {
		resp = p.cloner.Clone(resp)
	}

	return rw.WriteMsg(ctx, req, resp)
}

// ---- servers ----

const (
	addrDNS  = "198.18.0.1:53"
	addrDNS2 = "198.18.0.9:53"
	addrDoT  = "198.18.0.2:853"
	addrDoH  = "198.18.0.3:443"
	addrDoQ  = "198.18.0.4:853"
	addrDC   = "198.18.0.5:5443"
)

// set B: a second, identically configured group of servers that stays fresh.
const (
	addrDNSB = "198.18.1.1:53"
	addrDoTB = "198.18.1.2:853"
	addrDoHB = "198.18.1.3:443"
	addrDoQB = "198.18.1.4:853"
)

type metricsListener struct {
	dnsserver.EmptyMetricsListener
	s      *kernel.Sim
	panics int
}

func (m *metricsListener) OnPanic(_ context.Context, v any) {
	m.panics++
	m.s.Logf("server recovered a panic: %v", v)
}

type servers struct {
	n       *simnet.Net
	p       *pipeline
	metrics *metricsListener
	all     []dnsserver.Server

	// disposer is given every response a server has finished with.
	disposer *scribblingDisposer

	// bound, if not nil, is the manager of the interface listeners.
	bound *bound

	// dcCert is the certificate of the DNSCrypt server, which a client
	// normally fetches with a plain TXT query.
	dcCert     *dnscrypt.Cert
	dcProvider string
}

type serverOpts struct {
	maxUDPRespSize uint16
	pipelineLimit  uint
	dot, doh, doq  bool
	dnscrypt       bool
	second         bool

	// reqTimeout, if set, gives every request a context with this deadline.
	reqTimeout time.Duration

	// setB starts the second group of servers (fresh twin).
	setB bool

	// bound makes the plain-DNS and DoT servers of the first group listen
	// through interface listeners (internal/bindtodevice) with channels of
	// this size.
	bound int
}

func startServers(s *kernel.Sim, n *simnet.Net, p *pipeline, o serverOpts) (sv *servers) {
	sv = &servers{n: n, p: p, metrics: &metricsListener{s: s}, disposer: &scribblingDisposer{seen: map[*dns.Msg]bool{}}}
	base := func(name, addr string) dnsserver.ConfigBase {
		cb := dnsserver.ConfigBase{
			Name:         name,
			Addr:         addr,
			Handler:      p,
			Metrics:      sv.metrics,
			ListenConfig: n,
			Disposer:     sv.disposer,
		}
		if p.cloner != nil {
			cb.Disposer = p.cloner
		}
		if o.reqTimeout > 0 {
			cb.RequestContext = dnsserver.NewTimeoutContextConstructor(o.reqTimeout)
		}

		return cb
	}

	dnsConf := func(name, addr string) dnsserver.ConfigDNS {
		return dnsserver.ConfigDNS{
			ConfigBase:         base(name, addr),
			ReadTimeout:        2 * time.Second,
			WriteTimeout:       2 * time.Second,
			TCPIdleTimeout:     10 * time.Second,
			MaxUDPRespSize:     o.maxUDPRespSize,
			MaxPipelineEnabled: o.pipelineLimit > 0,
			MaxPipelineCount:   o.pipelineLimit,
		}
	}

	// bind returns the configuration of a server that listens either on its
	// own sockets or through an interface listener.
	bind := func(c dnsserver.ConfigDNS, port uint16, subnet string) dnsserver.ConfigDNS {
		if sv.bound != nil {
			c.ListenConfig, c.Addr = sv.bound.listenConfig(port, subnet)
		}

		return c
	}
	if o.bound > 0 {
		sv.bound = startBound(s, n, o.bound)
	}

	sv.all = append(sv.all, dnsserver.NewServerDNS(bind(dnsConf("dns", addrDNS), 53, boundDNSSubnet)))
	if o.second || sv.bound != nil {
		sv.all = append(sv.all, dnsserver.NewServerDNS(bind(dnsConf("dns2", addrDNS2), 53, boundDNS2Subnet)))
	}

	tlsConf := &tls.Config{Certificates: []tls.Certificate{testCert()}, MinVersion: tls.VersionTLS12}
	if o.dot {
		sv.all = append(sv.all, dnsserver.NewServerTLS(dnsserver.ConfigTLS{
			TLSConfig: tlsConf.Clone(),
			ConfigDNS: bind(dnsConf("dot", addrDoT), 853, boundDNSSubnet),
		}))
	}

	if o.doh {
		// HTTP/1.1 and HTTP/2 over TCP, HTTP/3 over QUIC on the same address.
		hc := base("doh", addrDoH)
		h2 := tlsConf.Clone()
		h2.NextProtos = []string{"h2", "http/1.1"}
		h3 := tlsConf.Clone()
		h3.NextProtos = []string{"h3", "h2", "http/1.1"}
		sv.all = append(sv.all, dnsserver.NewServerHTTPS(dnsserver.ConfigHTTPS{
			ConfigBase:     hc,
			TLSConfDefault: h2,
			TLSConfH3:      h3,
		}))
	}

	if o.doq {
		qc := tlsConf.Clone()
		qc.NextProtos = []string{"doq"}
		sv.all = append(sv.all, dnsserver.NewServerQUIC(dnsserver.ConfigQUIC{
			ConfigBase: base("doq", addrDoQ),
			TLSConfig:  qc,
		}))
	}

	if o.dnscrypt {
		rc, err := dnscrypt.GenerateResolverConfig("2.dnscrypt-cert.sim.test", nil)
		if err != nil {
			panic(err)
		}
		cert, err := rc.CreateCert()
		if err != nil {
			panic(err)
		}
		sv.dcCert, sv.dcProvider = cert, rc.ProviderName
		dcConf := dnsserver.ConfigDNSCrypt{
			ConfigBase:           base("dnscrypt", addrDC),
			DNSCryptResolverCert: cert,
			DNSCryptProviderName: rc.ProviderName,
		}
		// The configured maximum UDP response size, where the server's
		// configuration has a place for it (set by name, so that the harness
		// also builds against a tree without the field).
		if f := reflect.ValueOf(&dcConf).Elem().FieldByName("MaxUDPRespSize"); f.IsValid() && o.maxUDPRespSize > 0 {
			f.SetUint(uint64(o.maxUDPRespSize))
		}
		sv.all = append(sv.all, dnsserver.NewServerDNSCrypt(dcConf))
	}

	if o.setB {
		sv.all = append(sv.all, dnsserver.NewServerDNS(dnsConf("dnsB", addrDNSB)))
		sv.all = append(sv.all, dnsserver.NewServerTLS(dnsserver.ConfigTLS{
			TLSConfig: tlsConf.Clone(),
			ConfigDNS: dnsConf("dotB", addrDoTB),
		}))
		hc := base("dohB", addrDoHB)
		hc.Network = dnsserver.NetworkTCP
		h2 := tlsConf.Clone()
		h2.NextProtos = []string{"h2", "http/1.1"}
		sv.all = append(sv.all, dnsserver.NewServerHTTPS(dnsserver.ConfigHTTPS{ConfigBase: hc, TLSConfDefault: h2}))
		qc := tlsConf.Clone()
		qc.NextProtos = []string{"doq"}
		sv.all = append(sv.all, dnsserver.NewServerQUIC(dnsserver.ConfigQUIC{ConfigBase: base("doqB", addrDoQB), TLSConfig: qc}))
	}

	if sv.bound != nil {
		sv.bound.start()
	}

	for _, srv := range sv.all {
		err := srv.Start(context.Background())
		if err != nil {
			panic(fmt.Errorf("starting %s: %w", srv.Name(), err))
		}
	}

	return sv
}

func (sv *servers) shutdown() {
	for _, srv := range sv.all {
		ctx, cancel := context.WithTimeout(context.Background(), 5*time.Second)
		_ = srv.Shutdown(ctx)
		cancel()
	}

	if sv.bound != nil {
		sv.bound.shutdown()
	}
}

// ---- small helpers ----

func clientTLS(sni string, protos ...string) *tls.Config {
	return &tls.Config{InsecureSkipVerify: true, ServerName: sni, NextProtos: protos, MinVersion: tls.VersionTLS12} //nolint:gosec
}

func withPrefix(b []byte) []byte {
	out := make([]byte, 2+len(b))
	binary.BigEndian.PutUint16(out, uint16(len(b)))
	copy(out[2:], b)

	return out
}

func clientIP(i int) netip.Addr { return netip.AddrFrom4([4]byte{203, 0, 113, byte(10 + i)}) }

// readFrames reads length-prefixed messages from c until the deadline passes
// or the stream ends; it returns the frames and how the stream ended.
func readFrames(c net.Conn, quiet time.Duration) (frames [][]byte, end string) {
	for {
		_ = c.SetReadDeadline(time.Now().Add(quiet))
		var lb [2]byte
		_, err := readFull(c, lb[:])
		if err != nil {
			return frames, endOf(err)
		}
		l := int(binary.BigEndian.Uint16(lb[:]))
		b := make([]byte, l)
		_, err = readFull(c, b)
		if err != nil {
			return frames, "short:" + endOf(err)
		}
		frames = append(frames, b)
	}
}

func readFull(c net.Conn, b []byte) (n int, err error) {
	for n < len(b) {
		var k int
		k, err = c.Read(b[n:])
		n += k
		if err != nil {
			return n, err
		}
	}

	return n, nil
}

func endOf(err error) string {
	if err == nil {
		return ""
	}
	if ne, ok := err.(net.Error); ok && ne.Timeout() {
		return "quiet"
	}
	s := err.Error()
	switch {
	case strings.Contains(s, "EOF"):
		return "eof"
	case strings.Contains(s, "reset"):
		return "reset"
	case strings.Contains(s, "closed"):
		return "closed"
	}

	return "err:" + s
}

// ---- DNSCrypt client ----

// dcClient seals and opens DNSCrypt messages for one client key pair.
type dcClient struct {
	cert   *dnscrypt.Cert
	pk     [32]byte
	shared [32]byte
}

func newDCClient(cert *dnscrypt.Cert, seed uint64) (c *dcClient) {
	c = &dcClient{cert: cert}
	var sk [32]byte
	r := mrand.New(mrand.NewPCG(seed, 0xdc))
	for i := range sk {
		sk[i] = byte(r.IntN(256))
	}
	curve25519.ScalarBaseMult(&c.pk, &sk)
	box.Precompute(&c.shared, &cert.ResolverPk, &sk)

	return c
}

func (c *dcClient) seal(raw []byte) (b []byte) {
	q := dnscrypt.EncryptedQuery{EsVersion: c.cert.EsVersion, ClientMagic: c.cert.ClientMagic, ClientPk: c.pk}
	b, err := q.Encrypt(raw, c.shared)
	if err != nil {
		panic(err)
	}

	return b
}

func (c *dcClient) open(b []byte) (raw []byte, err error) {
	r := dnscrypt.EncryptedResponse{EsVersion: c.cert.EsVersion}

	return r.Decrypt(b, c.shared)
}

// h3Transport returns an HTTP/3 client transport whose QUIC connections run
// over a socket of the simulated network, and a function that releases it.
func h3Transport(n *simnet.Net, ip netip.Addr, sni string) (rt *http3.Transport, done func()) {
	pc, err := n.DialPacket(n.ClientAddr(ip))
	if err != nil {
		panic(err)
	}
	qt := &quic.Transport{Conn: pc}
	rt = &http3.Transport{
		TLSClientConfig: clientTLS(sni, "h3"),
		QUICConfig:      &quic.Config{MaxIdleTimeout: 100 * time.Second},
		Dial: func(ctx context.Context, _ string, tlsCfg *tls.Config, cfg *quic.Config) (quic.EarlyConnection, error) {
			return qt.DialEarly(ctx, net.UDPAddrFromAddrPort(netip.MustParseAddrPort(addrDoH)), tlsCfg, cfg)
		},
	}

	return rt, func() {
		_ = rt.Close()
		_ = qt.Close()
		_ = pc.Close()
	}
}

// scribblingDisposer is the servers' disposer: a response handed to it is the
// disposer's to reuse, so it overwrites it at once; a server that still uses
// the message afterwards sends the client nonsense.  It also notes a message
// handed over twice (messages are kept alive, so that an address cannot come
// back for another message).
type scribblingDisposer struct {
	mu    sync.Mutex
	seen  map[*dns.Msg]bool
	twice int
}

// Dispose implements the dnsserver.Disposer interface.
func (d *scribblingDisposer) Dispose(resp *dns.Msg) {
	if resp == nil {
		return
	}
	d.mu.Lock()
	if d.seen[resp] {
		d.twice++
	}
	d.seen[resp] = true
	d.mu.Unlock()

	for _, sec := range [][]dns.RR{resp.Answer, resp.Ns, resp.Extra} {
		for i := range sec {
			sec[i] = nil
		}
	}
	resp.Answer, resp.Ns, resp.Extra = nil, nil, nil
	resp.Rcode = dns.RcodeBadCookie
	resp.Id ^= 0x5555
	for i := range resp.Question {
		resp.Question[i].Name = "released.invalid."
	}
}
