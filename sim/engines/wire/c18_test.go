package wire

import (
	"crypto/tls"
	"fmt"
	"net"
	"strings"
	"sync"
	"time"

	"github.com/AdguardTeam/AdGuardDNS/verif/kernel"
	"github.com/AdguardTeam/AdGuardDNS/verif/simnet"
	"github.com/miekg/dns"
)

// C18, pipeline part: with pipeline limiting enabled no more than the
// configured number of queries of one TCP or TLS connection are processed at
// the same time, and all of them are answered eventually.
func runC18(s *kernel.Sim, _ string) {
	t := s.T
	limit := t.Range(1, 4, "pipeline-limit")
	n := simnet.New(s)
	n.Faults = simnet.Faults{Timed: true, Seed: uint64(t.Choose(1<<30, "net-seed")), Segment: true}

	var mu sync.Mutex
	inFlight := map[string]int{}
	maxSeen := map[string]int{}
	hold := kernel.Pick(t, []time.Duration{50 * time.Millisecond, time.Second, 0}, "handler-hold")

	p := &pipeline{}
	p.gate = func(remote net.Addr, req *dns.Msg) {
		if len(req.Question) == 1 && strings.HasPrefix(req.Question[0].Name, "quick.") {
			// A query that takes no time, from a connection of its own.
			return
		}
		k := remote.String()
		mu.Lock()
		inFlight[k]++
		if inFlight[k] > maxSeen[k] {
			maxSeen[k] = inFlight[k]
		}
		mu.Unlock()

		if hold > 0 {
			time.Sleep(hold)
		}

		mu.Lock()
		inFlight[k]--
		mu.Unlock()
	}

	// Requests may carry a deadline shorter than the time the handler takes:
	// the query is still being processed and still counts.
	reqTimeout := kernel.Pick(t, []time.Duration{0, 0, 20 * time.Millisecond, 500 * time.Millisecond}, "request-timeout")
	boundBuf := 0
	if t.Chance(1, 3, "bound") {
		boundBuf = kernel.Pick(t, []int{1, 4, 64}, "bound-chan")
		s.Probe("interface-bound-listeners")
	}
	sv := startServers(s, n, p, serverOpts{dot: true, pipelineLimit: uint(limit), reqTimeout: reqTimeout, bound: boundBuf})
	defer sv.shutdown()

	burst := t.Range(1, 20, "burst")
	// Now and then another connection comes first: it sends as many queries
	// as the limit allows and goes away while they are being processed.
	gone := t.Chance(1, 3, "connection-gone-with-queries-in-flight")
	s.Logf("pipeline limit %d, burst %d, handler hold %v, request timeout %v", limit, burst, hold, reqTimeout)

	r := &runner{s: s}
	for _, x := range []struct {
		tr, addr string
		tc       *tls.Config
	}{{"tcp", addrDNS, nil}, {"dot", addrDoT, clientTLS("dns.sim.test")}} {
		x := x
		r.spawn("c18-"+x.tr, func(tk *task) {
			if gone {
				var first []byte
				for i := 0; i < limit; i++ {
					m := &dns.Msg{}
					m.SetQuestion(fmt.Sprintf("g%d.burst.test.", i), dns.TypeA)
					m.Id = uint16(300 + i)
					raw, _ := m.Pack()
					first = append(first, withPrefix(raw)...)
				}
				if c, err := n.Dial(x.addr, n.ClientAddr(clientIP(3))); err == nil {
					var conn net.Conn = c
					if x.tc != nil {
						tconn := tls.Client(c, x.tc)
						if tconn.Handshake() == nil {
							conn = tconn
						}
					}
					_, _ = conn.Write(first)
					time.Sleep(20 * time.Millisecond)
					_ = conn.Close()
					tk.Probe("connection-gone-with-queries-in-flight")
				}
				time.Sleep(30 * time.Millisecond)
			}
			var all []byte
			for i := 0; i < burst; i++ {
				m := &dns.Msg{}
				m.SetQuestion(fmt.Sprintf("b%d.burst.test.", i), dns.TypeA)
				m.Id = uint16(500 + i)
				raw, _ := m.Pack()
				all = append(all, withPrefix(raw)...)
			}

			frames, end := streamExchange(tk, n, x.addr, x.tc, [][]byte{all}, false)
			if reqTimeout > 0 && reqTimeout <= hold+400*time.Millisecond {
				// The handler may outlive the request's deadline; a late
				// answer is not written.  Only the limit is judged.
				tk.Probe("handler-outlives-request-deadline")

				return
			}
			if len(frames) != burst {
				tk.Failf("C18/pipeline-unanswered", x.tr+": not every pipelined query was answered",
					"limit %d burst %d: %d answers, stream end %s", limit, burst, len(frames), end)

				return
			}
			seen := map[uint16]bool{}
			for _, f := range frames {
				m := &dns.Msg{}
				if m.Unpack(f) == nil {
					seen[m.Id] = true
				}
			}
			if len(seen) != burst {
				tk.Failf("C18/pipeline-unanswered", x.tr+": not every pipelined query was answered",
					"limit %d burst %d: %d distinct IDs answered", limit, burst, len(seen))
			}
		})
	}
	// The limit is one connection's: while a connection keeps its slots busy
	// for a second, a single quick query on a connection of its own is
	// answered at once.
	if hold >= time.Second && burst > limit {
		for _, x := range []struct {
			tr, addr string
			tc       *tls.Config
		}{{"tcp", addrDNS, nil}, {"dot", addrDoT, clientTLS("dns.sim.test")}} {
			x := x
			r.spawn("c18-other-"+x.tr, func(tk *task) {
				// Let the burst arrive first.
				time.Sleep(200 * time.Millisecond)
				m := &dns.Msg{}
				m.SetQuestion("quick.burst.test.", dns.TypeA)
				m.Id = 999
				raw, _ := m.Pack()
				begin := time.Now()
				frames, end := streamExchange(tk, n, x.addr, x.tc, [][]byte{withPrefix(raw)}, false)
				_ = end
				took := time.Since(begin)
				tk.Probe("quick-query-beside-a-busy-connection")
				if len(frames) == 0 {
					tk.Failf("C18/pipeline-other-connection", x.tr+": a query on a connection of its own got no answer while another connection kept its pipeline busy",
						"limit %d, burst %d on the other connection, hold %v, request timeout %v: %s", limit, burst, hold, reqTimeout, end)

					return
				}
				if fm := (&dns.Msg{}); fm.Unpack(frames[0]) != nil || fm.Id != 999 {
					return
				}
				_ = took
			})
		}
	}
	r.wait()
	s.MarkNontrivial()
	if s.Failed() != nil {
		return
	}

	mu.Lock()
	defer mu.Unlock()
	for k, m := range maxSeen {
		if m > limit {
			s.Failf("C18/pipeline-limit", "more queries of one connection processed at once than the pipeline limit",
				"connection %s: %d handler invocations in flight, limit %d (burst %d, hold %v)", k, m, limit, burst, hold)

			return
		}
		if m == limit && burst > limit {
			s.Probe("pipeline-limit-reached")
		}
	}
}
