package wire

import (
	"bytes"
	"context"
	"crypto/tls"
	"encoding/base64"
	"encoding/json"
	"fmt"
	"io"
	"math/rand/v2"
	"net"
	"net/http"
	"net/netip"
	"net/url"
	"sort"
	"strings"
	"sync"
	"time"

	"github.com/AdguardTeam/AdGuardDNS/verif/kernel"
	"github.com/AdguardTeam/AdGuardDNS/verif/simnet"
	"github.com/miekg/dns"
	"github.com/quic-go/quic-go"
	"golang.org/x/net/http2"
)

// item is one message sent to the servers.
type item struct {
	kind string
	raw  []byte
	id   uint16

	// msg is the harness' own decoding of raw (nil when undecodable).
	msg *dns.Msg

	// json is set when the query can be expressed through the JSON API.
	json bool
}

// expectation is what the statement of C01 demands for an item.
type expectation struct {
	// outcome is "answer", "formerr", "notimp", "servfail" or "none".
	outcome string
	rcode   int
	an      []dns.RR
	ns      []dns.RR
	ex      []dns.RR
}

func expect(it *item) (e expectation) {
	m := it.msg
	switch {
	case m == nil:
		return expectation{outcome: "none"}
	case m.Response:
		return expectation{outcome: "none"}
	case m.Opcode != dns.OpcodeQuery && m.Opcode != dns.OpcodeNotify:
		return expectation{outcome: "notimp", rcode: dns.RcodeNotImplemented}
	case len(m.Question) != 1, len(m.Answer) > 1, len(m.Ns) > 1:
		return expectation{outcome: "formerr", rcode: dns.RcodeFormatError}
	}

	rcode, an, ns, ex, _, mode := answerFor(m.Question[0])
	switch mode {
	case "nowrite":
		return expectation{outcome: "none"}
	case "err", "errwrite":
		return expectation{outcome: "servfail", rcode: dns.RcodeServerFailure}
	}

	return expectation{outcome: "answer", rcode: rcode, an: an, ns: ns, ex: ex}
}

func rrStrings(rrs []dns.RR) (out []string) {
	for _, rr := range rrs {
		if rr.Header().Rrtype == dns.TypeOPT {
			continue
		}
		out = append(out, rr.String())
	}

	return out
}

// checkResponse checks one received response against the item it answers.
func checkResponse(s *task, tr string, it *item, resp *dns.Msg, checkID bool) {
	e := expect(it)
	if e.outcome == "none" {
		s.Failf("C01/unexpected-response", tr+": response to a message that must be dropped",
			"%s item %s id=%d got %s", tr, it.kind, it.id, resp.String())

		return
	}

	if !resp.Response {
		s.Failf("C01/not-a-response", tr+": reply without QR bit", "%s item %s", tr, it.kind)

		return
	}

	if checkID && resp.Id != it.id {
		s.Failf("C01/wrong-id", tr+": response carries another ID",
			"%s item %s: sent id %d, got %d", tr, it.kind, it.id, resp.Id)

		return
	}

	// The question must be one the request carried.
	for _, rq := range resp.Question {
		found := false
		for _, q := range it.msg.Question {
			if q == rq {
				found = true
			}
		}
		if !found {
			s.Failf("C01/wrong-question", tr+": response carries a question the request did not carry",
				"%s item %s id=%d: request %v, response %v", tr, it.kind, it.id, it.msg.Question, resp.Question)

			return
		}
	}

	if e.outcome == "answer" || e.outcome == "servfail" {
		if len(resp.Question) != 1 {
			s.Failf("C01/question-missing", tr+": response to an accepted query lacks its question",
				"%s item %s id=%d: %v", tr, it.kind, it.id, resp.Question)

			return
		}
	}

	if resp.Rcode != e.rcode {
		s.Failf("C01/wrong-rcode", fmt.Sprintf("%s: rcode differs from what the pipeline produced (%s)", tr, e.outcome),
			"%s item %s id=%d name=%v: rcode %d, expected %d", tr, it.kind, it.id, it.msg.Question, resp.Rcode, e.rcode)

		return
	}

	if e.outcome != "answer" || resp.Truncated {
		return
	}

	got := [][]string{rrStrings(resp.Answer), rrStrings(resp.Ns), rrStrings(resp.Extra)}
	want := [][]string{rrStrings(e.an), rrStrings(e.ns), rrStrings(e.ex)}
	if fmt.Sprint(got) != fmt.Sprint(want) {
		s.Failf("C01/wrong-records", tr+": records differ from what the pipeline produced",
			"%s item %s id=%d %v:\n got  %v\n want %v", tr, it.kind, it.id, it.msg.Question, got, want)
	}
}

// ---- generators ----

func genName(t *kernel.Tape, i int) string {
	alpha := "abcdefghijklmnopqrstuvwxyz0123456789-_"
	label := func(n int) string {
		var b strings.Builder
		for j := 0; j < n; j++ {
			switch t.Choose(12, "label-char") {
			case 0:
				b.WriteString(strings.ToUpper(string(alpha[t.Choose(26, "ch")])))
			case 1:
				b.WriteString(fmt.Sprintf("\\%03d", t.Choose(256, "byte")))
			case 2:
				b.WriteString("\\.")
			default:
				b.WriteByte(alpha[t.Choose(len(alpha), "ch")])
			}
		}

		return b.String()
	}

	switch t.Choose(8, "name-shape") {
	case 0:
		return fmt.Sprintf("q%d.example.", i)
	case 1:
		return fmt.Sprintf("Q%d.ExAmPlE.", i)
	case 2:
		// Maximum length: 255 octets on the wire.
		var parts []string
		total := 1
		for total+64 <= 255 {
			parts = append(parts, strings.Repeat("m", 63))
			total += 64
		}
		if rest := 255 - total - 1; rest > 0 {
			parts = append(parts, strings.Repeat("r", rest))
		}

		return strings.Join(parts, ".") + "."
	case 3:
		// Many one-octet labels.
		n := 1 + t.Choose(127, "labels")

		return strings.Repeat("a.", n)
	case 4:
		return "."
	case 5:
		return label(1+t.Choose(20, "len")) + "." + label(1+t.Choose(10, "len")) + ".test."
	case 6:
		if t.Chance(1, 2, "bad-response") {
			return fmt.Sprintf("badresp%d.test.", i)
		}

		return fmt.Sprintf("err%d.test.", i)
	default:
		return fmt.Sprintf("s%d.size.test.", 20+t.Choose(1500, "size"))
	}
}

var qtypes = []uint16{dns.TypeA, dns.TypeAAAA, dns.TypeTXT, dns.TypeANY, dns.TypeHTTPS, dns.TypeMX, 0, 65535, dns.TypeOPT, dns.TypeAXFR}
var qclasses = []uint16{dns.ClassINET, dns.ClassINET, dns.ClassCHAOS, dns.ClassANY, 0, 65535}

func genQuery(t *kernel.Tape, i int) (it *item) {
	m := &dns.Msg{}
	m.Id = uint16(1000 + i)
	m.Question = []dns.Question{{
		Name:   genName(t, i),
		Qtype:  kernel.Pick(t, qtypes, "qtype"),
		Qclass: kernel.Pick(t, qclasses, "qclass"),
	}}
	m.RecursionDesired = t.Chance(1, 2)
	m.AuthenticatedData = t.Chance(1, 4)
	m.CheckingDisabled = t.Chance(1, 4)
	m.Zero = t.Chance(1, 8)
	m.Truncated = t.Chance(1, 16)
	m.Authoritative = t.Chance(1, 16)

	plain := true
	if t.Chance(1, 2) {
		m.SetEdns0(kernel.Pick(t, []uint16{1232, 512, 0, 4096, 65535, 511}, "udp-size"), t.Chance(1, 3))
		opt := m.IsEdns0()
		for k := t.Choose(3, "edns-options"); k > 0; k-- {
			plain = false
			switch t.Choose(4, "edns-opt") {
			case 0:
				opt.Option = append(opt.Option, &dns.EDNS0_NSID{Code: dns.EDNS0NSID})
			case 1:
				opt.Option = append(opt.Option, &dns.EDNS0_COOKIE{Code: dns.EDNS0COOKIE, Cookie: "0102030405060708"})
			case 2:
				pad := t.Choose(40, "pad")
				if t.Chance(1, 4, "big-pad") {
					// Queries longer than the servers' initial 512-byte buffers.
					pad = 400 + t.Choose(800, "pad")
				}
				opt.Option = append(opt.Option, &dns.EDNS0_PADDING{Padding: make([]byte, pad)})
			default:
				opt.Option = append(opt.Option, &dns.EDNS0_LOCAL{Code: 65001, Data: []byte{1, 2, 3}})
			}
		}
	}

	raw, err := m.Pack()
	if err != nil {
		// A name the library cannot encode: fall back to a plain one.
		m.Question[0].Name = fmt.Sprintf("q%d.example.", i)
		raw, err = m.Pack()
		if err != nil {
			panic(err)
		}
	}

	it = &item{kind: "query", raw: raw, id: m.Id}
	it.json = plain && !m.AuthenticatedData && !m.Zero && !m.Truncated && !m.Authoritative &&
		m.Question[0].Qclass == dns.ClassINET && m.Question[0].Name != "." &&
		!strings.Contains(m.Question[0].Name, "\\") && m.Question[0].Qtype != 0 && m.IsEdns0() == nil

	return it
}

func genNonQuery(t *kernel.Tape, i int) (it *item) {
	base := genQuery(t, i)
	m := &dns.Msg{}
	_ = m.Unpack(base.raw)
	raw := append([]byte(nil), base.raw...)
	kind := ""

	switch t.Choose(9, "nonquery") {
	case 0:
		kind = "response"
		raw[2] |= 0x80
	case 1:
		kind = "opcode"
		op := byte(1 + t.Choose(15, "opcode"))
		if op == byte(dns.OpcodeNotify) {
			op = 5
		}
		raw[2] = raw[2]&0x87 | op<<3
	case 2:
		kind = "qdcount0"
		m.Question = nil
		raw, _ = m.Pack()
	case 3:
		kind = "qdcount2"
		m.Question = append(m.Question, dns.Question{Name: "second.example.", Qtype: dns.TypeA, Qclass: dns.ClassINET})
		raw, _ = m.Pack()
	case 4:
		kind = "ancount2"
		rr := &dns.A{Hdr: dns.RR_Header{Name: "x.example.", Rrtype: dns.TypeA, Class: dns.ClassINET}, A: net.IPv4(1, 2, 3, 4)}
		m.Answer = []dns.RR{rr, rr}
		raw, _ = m.Pack()
	case 5:
		kind = "nscount2"
		rr := &dns.NS{Hdr: dns.RR_Header{Name: "x.example.", Rrtype: dns.TypeNS, Class: dns.ClassINET}, Ns: "ns.example."}
		m.Ns = []dns.RR{rr, rr}
		raw, _ = m.Pack()
	case 6:
		kind = "garbage"
		raw = make([]byte, t.Choose(64, "garbage-len"))
		for j := range raw {
			raw[j] = byte(t.Choose(256, "garbage-byte"))
		}
	case 7:
		kind = "cut"
		raw = raw[:t.Choose(len(raw), "cut-at")]
	default:
		kind = "trailing-garbage"
		raw = append(raw, 0xde, 0xad, 0xbe, 0xef)
	}

	it = &item{kind: kind, raw: raw}
	if len(raw) >= 2 {
		it.id = uint16(raw[0])<<8 | uint16(raw[1])
	}

	return it
}

func (it *item) decode() {
	m := &dns.Msg{}
	if err := m.Unpack(it.raw); err == nil {
		it.msg = m
	}
}

// killsStream reports whether the item makes a stream server close the
// connection (nothing is written for it).
func (it *item) killsStream() bool { return expect(it).outcome == "none" }

// ---- tasks ----

// task is one client goroutine of a run.  Its random choices come from a
// generator of its own, seeded by one draw from the run's tape when the task
// is created, its trace lines are buffered and its first violation is
// recorded locally; the runner merges both in task order.  What a task does
// therefore does not depend on how the Go scheduler interleaves it with the
// other tasks and the servers.
type task struct {
	s    *kernel.Sim
	name string
	rng  *rand.Rand
	logs []string
	fail *kernel.Violation
}

func (tk *task) Logf(format string, args ...any) {
	if len(tk.logs) < 400 {
		tk.logs = append(tk.logs, tk.name+": "+fmt.Sprintf(format, args...))
	}
}

// classOf maps a violation class of the C01 judgement to the property a run
// serves: the same clients and servers also are the transport part of C07
// (what a server does with a response it has finished with must not change
// what a client receives).
var classOf = func(class string) string { return class }

func (tk *task) Failf(class, witness, format string, args ...any) {
	class = classOf(class)
	if tk.s.NoteKnown(class, witness, fmt.Sprintf(format, args...)) {
		return
	}
	if tk.fail == nil {
		tk.fail = &kernel.Violation{Class: class, Witness: witness, Msg: fmt.Sprintf(format, args...)}
	}
}

func (tk *task) Failed() bool      { return tk.fail != nil }
func (tk *task) Probe(name string) { tk.s.Probe(name) }
func (tk *task) Fault(name string) { tk.s.Fault(name) }
func (tk *task) Choose(n int) int {
	if n <= 1 {
		return 0
	}
	return tk.rng.IntN(n)
}
func (tk *task) Chance(num, den int) bool { return tk.rng.IntN(den) < num }

// pause lets simulated time pass between two actions of a task.
func (tk *task) pause() {
	d := []time.Duration{0, 0, time.Millisecond, 20 * time.Millisecond, time.Second}[tk.rng.IntN(5)]
	if d > 0 {
		time.Sleep(d)
	}
}

type runner struct {
	s     *kernel.Sim
	tasks []*task
	wg    sync.WaitGroup
}

func (r *runner) spawn(name string, f func(tk *task)) {
	seed := uint64(r.s.T.Choose(1<<30, "task-seed "+name))
	tk := &task{s: r.s, name: name, rng: rand.New(rand.NewPCG(seed, 0x5eed))}
	r.tasks = append(r.tasks, tk)
	r.wg.Add(1)
	go func() {
		defer r.wg.Done()
		defer func() {
			if v := recover(); v != nil {
				tk.Failf("panic", "panic in client task "+name, "%v", v)
			}
		}()
		f(tk)
	}()
}

// wait waits for the tasks and merges their traces and violations in task
// order.
func (r *runner) wait() {
	r.wg.Wait()
	for _, tk := range r.tasks {
		for _, l := range tk.logs {
			r.s.Logf("%s", l)
		}
	}
	for _, tk := range r.tasks {
		if tk.fail != nil {
			r.s.Failf(tk.fail.Class, tk.fail.Witness, "%s", tk.fail.Msg)

			break
		}
	}
	r.tasks = nil
}

// ---- the C01 run ----

// runC07 is the transport part of C07: every server hands the responses it
// has finished with to a disposer that overwrites them, as the pools of the
// production cloner will when the next request takes the pieces; queries of
// concurrent clients on every transport must still get their own answers.
// DNSCrypt stays out (its listed findings belong to C01 and C08).
func runC07(s *kernel.Sim, _ string) {
	classOf = func(class string) string {
		if rest, ok := strings.CutPrefix(class, "C01/"); ok {
			return "C07/transport-" + rest
		}

		return class
	}
	defer func() { classOf = func(class string) string { return class } }()

	runWire(s, "nofault", true)
}

func runC01(s *kernel.Sim, cfg string) { runWire(s, cfg, false) }

func runWire(s *kernel.Sim, cfg string, c07 bool) {
	t := s.T
	n := simnet.New(s)

	// Sub-batches: "" = every fault kind; "nodrop" = latencies (hence
	// reordering), stream segmentation and datagram duplication but no loss,
	// so that a missing answer can be judged strictly on the datagram
	// transports too; "nofault" = immediate in-order delivery.
	netSeed := uint64(t.Choose(1<<30, "net-seed"))
	switch cfg {
	case "nofault":
		n.Faults = simnet.Faults{}
	case "nodrop":
		n.Faults = simnet.Faults{Timed: true, Seed: netSeed, Segment: true, DupDen: 8}
	default:
		n.Faults = simnet.Faults{Timed: true, Seed: netSeed, Segment: true, DupDen: 8, DropDen: 10}
	}

	p := &pipeline{slow: t.Chance(1, 2, "slow-handler")}
	if p.slow {
		s.Probe("handler-takes-time")
	}
	// In a third of the runs the plain-DNS and DoT servers listen through
	// interface listeners.
	boundBuf := 0
	if t.Chance(1, 3, "bound") {
		boundBuf = kernel.Pick(t, []int{1, 4, 64}, "bound-chan")
		s.Probe("interface-bound-listeners")
	}
	sv := startServers(s, n, p, serverOpts{dot: true, doh: true, doq: true, dnscrypt: !c07, bound: boundBuf})
	defer sv.shutdown()

	nItems := t.Range(4, 24, "items")
	items := make([]*item, nItems)
	for i := range items {
		if !c07 && t.Chance(1, 3) {
			items[i] = genNonQuery(t, i)
		} else {
			items[i] = genQuery(t, i)
		}
		items[i].decode()
		s.Logf("item %d: %s id=%d len=%d expect=%s %v", i, items[i].kind, items[i].id, len(items[i].raw),
			expect(items[i]).outcome, questionOf(items[i]))
	}

	r := &runner{s: s}
	r.spawn("udp", func(tk *task) { clientUDP(tk, n, items) })
	r.spawn("tcp", func(tk *task) { clientStream(tk, n, "tcp", addrDNS, items, nil) })
	r.spawn("dot", func(tk *task) { clientStream(tk, n, "dot", addrDoT, items, clientTLS("dns.sim.test")) })
	r.spawn("doh", func(tk *task) { clientDoH(tk, n, items) })
	r.spawn("doq", func(tk *task) { clientDoQ(tk, n, items) })
	if !c07 {
		r.spawn("dnscrypt", func(tk *task) { clientDNSCrypt(tk, n, sv, items) })
	}
	r.wait()
	s.MarkNontrivial()
	if s.Failed() != nil {
		return
	}

	// Faults off: every listener must still answer a fresh valid query.
	n.Faults = simnet.Faults{}
	live := genQuery(kernel.NewReplayTape(nil), 999)
	live.decode()
	r.spawn("liveness", func(tk *task) {
		clientUDPOne(tk, n, live, "liveness-udp")
		for _, x := range []struct {
			tr, addr string
			tc       *tls.Config
		}{{"liveness-tcp", addrDNS, nil}, {"liveness-dot", addrDoT, clientTLS("dns.sim.test")}} {
			fr, end := streamExchange(tk, n, x.addr, x.tc, [][]byte{withPrefix(live.raw)}, false)
			if len(fr) != 1 {
				tk.Failf("C01/listener-down", x.tr+": listener does not answer a valid query after the faults stopped",
					"%s: %d responses, stream end %q", x.tr, len(fr), end)

				return
			}
		}
	})
	r.wait()
	if s.Failed() != nil {
		return
	}

	if sv.metrics.panics > 0 {
		s.Probe("server-recovered-panic")
		s.Failf(classOf("C01/panic"), "a server recovered from a panic while handling input",
			"%d panics recovered", sv.metrics.panics)

		return
	}

}

func questionOf(it *item) string {
	if it.msg == nil || len(it.msg.Question) == 0 {
		return ""
	}

	return fmt.Sprintf("%q/%d/%d", it.msg.Question[0].Name, it.msg.Question[0].Qtype, it.msg.Question[0].Qclass)
}

// ---- UDP ----

func clientUDP(s *task, n *simnet.Net, items []*item) {
	local := n.ClientAddr(clientIP(0))
	pc, err := n.DialPacket(local)
	if err != nil {
		panic(err)
	}
	defer pc.Close()

	srv := net.UDPAddrFromAddrPort(netip.MustParseAddrPort(addrDNS))
	sentAt := map[uint16]*item{}
	for _, it := range items {
		if len(it.raw) > 512 {
			// RFC 1035, section 4.2.1: messages carried by UDP are restricted
			// to 512 octets; the server's datagram receive buffer has that
			// size, so longer queries are exercised on the other transports
			// only.
			continue
		}
		s.pause()
		_, _ = pc.WriteTo(it.raw, srv)
		if it.msg != nil {
			sentAt[it.id] = it
		}
	}

	// Collect until the network has been silent for a while.
	got := map[uint16]int{}
	buf := make([]byte, 65535)
	for {
		_ = pc.SetReadDeadline(time.Now().Add(5 * time.Second))
		k, _, rerr := pc.ReadFrom(buf)
		if rerr != nil {
			break
		}

		resp := &dns.Msg{}
		if uerr := resp.Unpack(buf[:k]); uerr != nil {
			s.Failf("C01/undecodable-response", "udp: server sent bytes that do not decode", "%v: % x", uerr, buf[:k])

			return
		}

		it := sentAt[resp.Id]
		if it == nil {
			s.Failf("C01/wrong-id", "udp: response carries an ID no request carried", "got id %d: %s", resp.Id, resp.String())

			return
		}
		got[resp.Id]++
		checkResponse(s, "udp", it, resp, true)
		if s.Failed() {
			return
		}
	}

	// With drops and duplicates on both directions the count seen by the
	// client lies between 0 and the number of copies; the fault-free
	// sub-batch demands exactly one.
	for _, it := range items {
		if it.msg == nil || len(it.raw) > 512 {
			continue
		}
		e := expect(it)
		c := got[it.id]
		if e.outcome == "none" {
			continue
		}
		if n.Faults.DropDen == 0 && (c == 0 || (n.Faults.DupDen == 0 && c != 1)) {
			s.Failf("C01/response-count", "udp: query did not get exactly one response",
				"item %s id=%d %s: %d responses", it.kind, it.id, questionOf(it), c)

			return
		}
		if c > 0 {
			s.Probe("udp-answered")
		}
	}
}

func clientUDPOne(s *task, n *simnet.Net, it *item, tr string) {
	pc, err := n.DialPacket(n.ClientAddr(clientIP(1)))
	if err != nil {
		panic(err)
	}
	defer pc.Close()

	_, _ = pc.WriteTo(it.raw, net.UDPAddrFromAddrPort(netip.MustParseAddrPort(addrDNS)))
	_ = pc.SetReadDeadline(time.Now().Add(5 * time.Second))
	buf := make([]byte, 65535)
	k, _, rerr := pc.ReadFrom(buf)
	if rerr != nil {
		s.Failf("C01/listener-down", tr+": listener does not answer a valid query after the faults stopped", "%s: %v", tr, rerr)

		return
	}
	resp := &dns.Msg{}
	if resp.Unpack(buf[:k]) == nil {
		checkResponse(s, tr, it, resp, true)
	}
}

// ---- TCP and DoT ----

// streamExchange opens a connection, writes the chunks (yielding between
// them) and reads frames until the stream is quiet or ends.
func streamExchange(
	s *task,
	n *simnet.Net,
	addr string,
	tc *tls.Config,
	chunks [][]byte,
	yield bool,
) (frames [][]byte, end string) {
	return streamExchangeHalf(s, n, addr, tc, chunks, yield, "")
}

// streamExchangeHalf is streamExchange that optionally half-closes the
// connection after the last write.
func streamExchangeHalf(
	s *task,
	n *simnet.Net,
	addr string,
	tc *tls.Config,
	chunks [][]byte,
	yield bool,
	after string,
) (frames [][]byte, end string) {
	raw, err := n.Dial(addr, n.ClientAddr(clientIP(2)))
	if err != nil {
		return nil, "dial:" + err.Error()
	}

	var c net.Conn = raw
	if tc != nil {
		tconn := tls.Client(raw, tc)
		_ = tconn.SetDeadline(time.Now().Add(5 * time.Second))
		if herr := tconn.Handshake(); herr != nil {
			_ = raw.Close()

			return nil, "handshake:" + herr.Error()
		}
		_ = tconn.SetDeadline(time.Time{})
		c = tconn
	}
	defer c.Close()

	for _, ch := range chunks {
		if yield {
			s.pause()
		}
		if _, werr := c.Write(ch); werr != nil {
			break
		}
	}

	switch after {
	case "half":
		// The client has said all it wants to say and half-closes, as a
		// one-shot client does; its queries are still in flight.
		if cw, ok := c.(interface{ CloseWrite() error }); ok {
			_ = cw.CloseWrite()
		}
	case "abort":
		// The client vanishes without reading: the server's writes fail.
		raw.Reset()

		return nil, "aborted"
	case "partial":
		// The beginning of one more message, and then silence: the server
		// gives up on the connection after its read timeout.
		_, _ = c.Write([]byte{0, 40, 0x12, 0x34, 1})
	}

	return readFrames(c, 4*time.Second)
}

func clientStream(s *task, n *simnet.Net, tr, addr string, items []*item, tc *tls.Config) {
	t := s

	// Group items into connections; an item that kills the stream ends its
	// group.
	var groups [][]*item
	var cur []*item
	for _, it := range items {
		cur = append(cur, it)
		if it.killsStream() || t.Chance(1, 3) {
			groups = append(groups, cur)
			cur = nil
		}
	}
	if len(cur) > 0 {
		groups = append(groups, cur)
	}

	for _, g := range groups {
		// Pipelining: all messages of the group in one write, or one by one.
		var chunks [][]byte
		if t.Chance(1, 2) {
			var all []byte
			for _, it := range g {
				all = append(all, withPrefix(it.raw)...)
			}
			chunks = [][]byte{all}
		} else {
			for _, it := range g {
				chunks = append(chunks, withPrefix(it.raw))
			}
		}

		after := []string{"", "", "", "half", "half", "abort", "partial"}[t.Choose(7)]
		frames, end := streamExchangeHalf(s, n, addr, tc, chunks, true, after)
		s.Logf("%s: group of %d (then %q) -> %d frames, end=%s", tr, len(g), after, len(frames), end)
		switch after {
		case "half":
			s.Probe(tr + "-half-closed-with-queries-in-flight")
		case "partial":
			s.Probe(tr + "-partial-message-then-silence")
		case "abort":
			s.Probe(tr + "-client-vanished")

			continue
		}

		byID := map[uint16][]*dns.Msg{}
		for _, f := range frames {
			resp := &dns.Msg{}
			if uerr := resp.Unpack(f); uerr != nil {
				s.Failf("C01/undecodable-response", tr+": server sent bytes that do not decode", "%v: % x", uerr, f)

				return
			}
			byID[resp.Id] = append(byID[resp.Id], resp)
		}

		ids := map[uint16]*item{}
		for _, it := range g {
			if it.msg != nil {
				ids[it.id] = it
			}
		}
		for id, rs := range byID {
			it := ids[id]
			if it == nil {
				s.Failf("C01/wrong-id", tr+": response carries an ID no request on the connection carried",
					"id %d: %s", id, rs[0].String())

				return
			}
			for _, r := range rs {
				checkResponse(s, tr, it, r, true)
				if s.Failed() {
					return
				}
			}
		}

		last := g[len(g)-1]
		for _, it := range g {
			if it.msg == nil {
				continue
			}
			e := expect(it)
			c := len(byID[it.id])
			if e.outcome == "none" {
				continue
			}
			// Queries pipelined in front of a stream-killing message may
			// lose their answers when the server closes the connection.
			if last.killsStream() && it != last {
				if c > 1 {
					s.Failf("C01/response-count", tr+": query got more than one response", "id=%d: %d", it.id, c)

					return
				}

				continue
			}
			if c != 1 {
				s.Failf("C01/response-count", tr+": query did not get exactly one response",
					"item %s id=%d %s: %d responses (stream end %s)", it.kind, it.id, questionOf(it), c, end)

				return
			}
			s.Probe(tr + "-answered")
		}

		if last.killsStream() && end != "eof" && end != "reset" && end != "closed" && !strings.HasPrefix(end, "short") {
			// The documented treatment of a dropped message on a stream is
			// to close the connection.
			s.Probe(tr + "-dropped-message-stream-left-open")
		}
	}
}

// ---- DoH ----

type jsonResp struct {
	Status   int
	Question []struct {
		Name string `json:"name"`
		Type uint16 `json:"type"`
	}
	Answer []struct {
		Name string `json:"name"`
		Type uint16 `json:"type"`
		TTL  uint32
		Data string `json:"data"`
	}
}

func clientDoH(s *task, n *simnet.Net, items []*item) {
	t := s
	dial := func(ctx context.Context, _, _ string, cfg *tls.Config) (net.Conn, error) {
		raw, err := n.Dial(addrDoH, n.ClientAddr(clientIP(3)))
		if err != nil {
			return nil, err
		}
		tc := tls.Client(raw, cfg)
		if herr := tc.HandshakeContext(ctx); herr != nil {
			return nil, herr
		}

		return tc, nil
	}

	h2 := &http2.Transport{
		TLSClientConfig: clientTLS("dns.sim.test", "h2"),
		DialTLSContext:  dial,
	}
	h1 := &http.Transport{
		DialTLSContext: func(ctx context.Context, nw, addr string) (net.Conn, error) {
			return dial(ctx, nw, addr, clientTLS("dns.sim.test", "http/1.1"))
		},
		ForceAttemptHTTP2: false,
	}
	defer h2.CloseIdleConnections()
	defer h1.CloseIdleConnections()
	h3, h3done := h3Transport(n, clientIP(6), "dns.sim.test")
	defer h3done()

	for _, it := range items {
		if plainOnly(it) {
			continue
		}
		s.pause()
		var rt http.RoundTripper = h2
		ver := "h2"
		switch t.Choose(4) {
		case 0:
			rt, ver = h1, "h1"
		case 1:
			rt, ver = h3, "h3"
		}

		method := []string{"POST", "GET", "JSON"}[t.Choose(3)]
		if method == "JSON" && !it.json {
			method = "POST"
		}

		var req *http.Request
		u := "https://dns.sim.test/dns-query"
		switch method {
		case "POST":
			req, _ = http.NewRequest(http.MethodPost, u, bytes.NewReader(it.raw))
			req.Header.Set("Content-Type", "application/dns-message")
		case "GET":
			req, _ = http.NewRequest(http.MethodGet, u+"?dns="+base64.RawURLEncoding.EncodeToString(it.raw), nil)
		default:
			q := it.msg.Question[0]
			v := url.Values{"name": {q.Name}, "type": {fmt.Sprint(q.Qtype)}}
			if it.msg.CheckingDisabled {
				v.Set("cd", "1")
			}
			req, _ = http.NewRequest(http.MethodGet, "https://dns.sim.test/resolve?"+v.Encode(), nil)
		}
		req.Header.Set("Accept", "application/dns-message")

		tmo := 8 * time.Second
		if ver == "h3" {
			tmo = 100 * time.Second
		}
		dropsBefore := n.Drops
		ctx, cancel := context.WithTimeout(context.Background(), tmo)
		hr, err := rt.RoundTrip(req.WithContext(ctx))
		if err != nil {
			cancel()
			s.Logf("doh %s %s item %s id=%d: transport error %v", ver, method, it.kind, it.id, err)
			e := expect(it)
			if ver == "h3" && (n.Faults.DropDen > 0 || n.Drops != dropsBefore) {
				// Datagrams were lost: QUIC loss recovery may take longer
				// than the client waits.  Not judged.
				s.Probe("doh3-timeout-under-packet-loss")

				continue
			}
			if e.outcome != "none" {
				s.Failf("C01/doh-no-response", "doh: exchange failed for a message that must be answered",
					"%s %s item %s id=%d: %v", ver, method, it.kind, it.id, err)

				return
			}

			continue
		}
		body, _ := io.ReadAll(hr.Body)
		_ = hr.Body.Close()
		cancel()

		tr := "doh-" + ver + "-" + strings.ToLower(method)
		e := expect(it)
		if hr.StatusCode != http.StatusOK {
			if e.outcome != "none" {
				s.Failf("C01/doh-status", tr+": HTTP error for a message that must be answered",
					"item %s id=%d %s: status %d %q", it.kind, it.id, questionOf(it), hr.StatusCode, string(body))

				return
			}
			s.Probe("doh-http-error-for-dropped")

			continue
		}

		if method == "JSON" {
			var jr jsonResp
			if jerr := json.Unmarshal(body, &jr); jerr != nil {
				s.Failf("C01/doh-json", tr+": JSON API answer does not parse", "%v: %q", jerr, string(body))

				return
			}
			if e.outcome != "none" && jr.Status != e.rcode {
				s.Failf("C01/wrong-rcode", tr+": rcode differs from what the pipeline produced ("+e.outcome+")",
					"item id=%d %s: status %d, expected %d", it.id, questionOf(it), jr.Status, e.rcode)

				return
			}
			if len(jr.Question) != 1 || jr.Question[0].Name != it.msg.Question[0].Name ||
				jr.Question[0].Type != it.msg.Question[0].Qtype {
				s.Failf("C01/wrong-question", tr+": response carries a question the request did not carry",
					"item id=%d: request %s, response %+v", it.id, questionOf(it), jr.Question)

				return
			}
			if e.outcome == "answer" {
				var want []string
				for _, rr := range e.an {
					want = append(want, fmt.Sprintf("%s/%d", rr.Header().Name, rr.Header().Rrtype))
				}
				var got []string
				for _, a := range jr.Answer {
					got = append(got, fmt.Sprintf("%s/%d", a.Name, a.Type))
				}
				sort.Strings(want)
				sort.Strings(got)
				if fmt.Sprint(got) != fmt.Sprint(want) {
					s.Failf("C01/wrong-records", tr+": records differ from what the pipeline produced",
						"item id=%d %s:\n got  %v\n want %v", it.id, questionOf(it), got, want)

					return
				}
			}
			s.Probe("doh-json-answered")

			continue
		}

		resp := &dns.Msg{}
		if uerr := resp.Unpack(body); uerr != nil {
			s.Failf("C01/undecodable-response", tr+": server sent bytes that do not decode", "%v: % x", uerr, body)

			return
		}
		if it.msg == nil {
			s.Failf("C01/unexpected-response", tr+": response to undecodable bytes", "%s", resp.String())

			return
		}
		checkResponse(s, tr, it, resp, true)
		if s.Failed() {
			return
		}
		s.Probe("doh-answered")
		s.Probe("doh-" + ver + "-answered")
	}
}

// plainOnly reports whether it is judged on plain DNS and DoT only.
func plainOnly(it *item) bool {
	if it.msg == nil || len(it.msg.Question) != 1 {
		return false
	}
	_, _, _, _, _, mode := answerFor(it.msg.Question[0])

	return mode == "errwrite"
}

// ---- DoQ ----

func clientDoQ(s *task, n *simnet.Net, items []*item) {
	pc, err := n.DialPacket(n.ClientAddr(clientIP(4)))
	if err != nil {
		panic(err)
	}
	defer pc.Close()

	tr := &quic.Transport{Conn: pc}
	defer tr.Close()

	var conn quic.Connection
	connect := func() bool {
		ctx, cancel := context.WithTimeout(context.Background(), 10*time.Second)
		defer cancel()
		c, derr := tr.Dial(ctx, net.UDPAddrFromAddrPort(netip.MustParseAddrPort(addrDoQ)),
			clientTLS("dns.sim.test", "doq"), &quic.Config{MaxIdleTimeout: 30 * time.Second})
		if derr != nil {
			s.Logf("doq: dial: %v", derr)

			return false
		}
		conn = c

		return true
	}

	for _, it := range items {
		if plainOnly(it) {
			continue
		}
		s.pause()
		if conn == nil && !connect() {
			s.Probe("doq-dial-failed")

			return
		}

		e := expect(it)
		keepalive := false
		if it.msg != nil {
			if opt := it.msg.IsEdns0(); opt != nil {
				for _, o := range opt.Option {
					if o.Option() == dns.EDNS0TCPKEEPALIVE {
						keepalive = true
					}
				}
			}
		}

		dropsBefore := n.Drops
		ctx, cancel := context.WithTimeout(context.Background(), 8*time.Second)
		st, oerr := conn.OpenStreamSync(ctx)
		if oerr != nil {
			cancel()
			s.Logf("doq: open stream: %v", oerr)
			conn = nil

			continue
		}
		_, _ = st.Write(withPrefix(it.raw))
		_ = st.Close()
		_ = st.SetReadDeadline(time.Now().Add(6 * time.Second))
		body, rerr := io.ReadAll(st)
		cancel()

		if rerr != nil && len(body) > 0 {
			// The stream did not end before the client gave up: the body is
			// incomplete (late or lost packets), which is the same as no
			// data for the purposes of the oracle.
			s.Probe("doq-incomplete-body")
			body = nil
		}

		if len(body) == 0 {
			s.Logf("doq: item %s id=%d: no data (%v)", it.kind, it.id, rerr)
			if e.outcome != "none" && !keepalive {
				if n.Faults.DropDen > 0 || n.Drops != dropsBefore {
					// Datagrams were lost during the exchange: QUIC loss
					// recovery may legitimately take longer than the client
					// waits.  Not judged.
					s.Probe("doq-timeout-under-packet-loss")
					_ = conn.CloseWithError(0, "")
					conn = nil

					continue
				}
				if conn.Context().Err() != nil {
					// The connection was closed, e.g. by an earlier
					// protocol error on another stream; retry once on a
					// fresh one before judging.
					conn = nil
					s.Probe("doq-conn-closed")

					continue
				}
				s.Failf("C01/response-count", "doq: query did not get exactly one response",
					"item %s id=%d %s: stream ended without data: %v", it.kind, it.id, questionOf(it), rerr)

				return
			}
			if conn.Context().Err() != nil {
				conn = nil
			}

			continue
		}

		if len(body) < 2 || int(body[0])<<8|int(body[1]) != len(body)-2 {
			s.Failf("C01/undecodable-response", "doq: bad length prefix", "% x", body)

			return
		}
		resp := &dns.Msg{}
		if uerr := resp.Unpack(body[2:]); uerr != nil {
			s.Failf("C01/undecodable-response", "doq: server sent bytes that do not decode", "%v", uerr)

			return
		}
		if it.msg == nil {
			s.Failf("C01/unexpected-response", "doq: response to undecodable bytes", "%s", resp.String())

			return
		}
		if e.outcome == "none" {
			// A DoQ stream has to end with something: the server's way of
			// dropping a message it decoded is a bare SERVFAIL with the
			// message's own ID and question (DoH uses HTTP 500 likewise).
			okQ := len(resp.Question) == 0 || (len(it.msg.Question) > 0 && resp.Question[0] == it.msg.Question[0])
			if resp.Rcode != dns.RcodeServerFailure || resp.Id != it.id || !okQ || len(resp.Answer)+len(resp.Ns) > 0 {
				s.Failf("C01/unexpected-response", "doq: response to a message that must be dropped",
					"item %s id=%d got %s", it.kind, it.id, resp.String())

				return
			}
			s.Probe("doq-servfail-for-dropped")

			continue
		}
		checkResponse(s, "doq", it, resp, true)
		if s.Failed() {
			return
		}
		s.Probe("doq-answered")
	}

	if conn != nil {
		_ = conn.CloseWithError(0, "")
	}
}

// ---- DNSCrypt ----

// clientDNSCrypt sends every item encrypted, over UDP (messages that fit) or
// TCP.  A message the server decodes but must drop is answered with a bare
// SERVFAIL (as on DoQ); bytes that do not decode are not answered.
func clientDNSCrypt(s *task, n *simnet.Net, sv *servers, items []*item) {
	dc := newDCClient(sv.dcCert, uint64(s.rng.Uint64()))
	srv := net.UDPAddrFromAddrPort(netip.MustParseAddrPort(addrDC))

	// The certificate exchange a client starts with: a plain TXT query.
	{
		pc, err := n.DialPacket(n.ClientAddr(clientIP(5)))
		if err != nil {
			panic(err)
		}
		q := (&dns.Msg{}).SetQuestion(sv.dcProvider+".", dns.TypeTXT)
		raw, _ := q.Pack()
		_, _ = pc.WriteTo(raw, srv)
		_ = pc.SetReadDeadline(time.Now().Add(3 * time.Second))
		buf := make([]byte, 4096)
		k, _, rerr := pc.ReadFrom(buf)
		if rerr == nil {
			m := &dns.Msg{}
			if m.Unpack(buf[:k]) == nil && len(m.Answer) > 0 {
				s.Probe("dnscrypt-certificate-fetched")
			}
		}
		_ = pc.Close()
	}

	for _, it := range items {
		if plainOnly(it) {
			continue
		}
		s.pause()
		overTCP := len(it.raw) > 400 || s.Chance(1, 3)
		splitPrefix := false
		sealed := dc.seal(it.raw)
		var reply []byte
		var end string
		if overTCP {
			c, err := n.Dial(addrDC, n.ClientAddr(clientIP(5)))
			if err != nil {
				s.Failf("C01/listener-down", "dnscrypt: cannot connect", "%v", err)

				return
			}
			// The client decides where its segments end.
			c.WholeWrites()
			framed := withPrefix(sealed)
			splitPrefix = s.Chance(1, 6)
			if splitPrefix {
				// The two octets of the length prefix arrive in two
				// segments.
				_, _ = c.Write(framed[:1])
				time.Sleep(10 * time.Millisecond)
				_, _ = c.Write(framed[1:])
			} else {
				_, _ = c.Write(framed)
			}
			frames, e := readFrames(c, 3*time.Second)
			_ = c.Close()
			end = e
			if len(frames) > 1 {
				s.Failf("C01/response-count", "dnscrypt-tcp: more than one response", "item id=%d: %d", it.id, len(frames))

				return
			}
			if len(frames) == 1 {
				reply = frames[0]
			}
		} else {
			pc, err := n.DialPacket(n.ClientAddr(clientIP(5)))
			if err != nil {
				panic(err)
			}
			_, _ = pc.WriteTo(sealed, srv)
			_ = pc.SetReadDeadline(time.Now().Add(3 * time.Second))
			buf := make([]byte, 65535)
			k, _, rerr := pc.ReadFrom(buf)
			if rerr == nil {
				reply = append([]byte(nil), buf[:k]...)
			}
			_ = pc.Close()
			end = "udp"
		}

		tr := "dnscrypt-udp"
		if overTCP {
			tr = "dnscrypt-tcp"
		}
		e := expect(it)
		lossy := !overTCP && (n.Faults.DropDen > 0)
		// The DNSCrypt layer itself drops messages that are not a single
		// question or are responses, before the server's own checks.
		// It also rejects messages shorter than a header plus a minimal
		// question (17 octets).
		layerDrops := it.msg != nil && (len(it.msg.Question) != 1 || it.msg.Response || len(it.raw) < 17)
		if reply == nil {
			s.Logf("%s: item %s id=%d: no reply (%s)", tr, it.kind, it.id, end)
			if it.msg != nil && e.outcome != "none" && !lossy && !layerDrops {
				if splitPrefix {
					s.Failf("C01/dnscrypt-tcp-split-prefix",
						"dnscrypt-tcp: query whose two-octet length prefix arrives in two segments gets no response",
						"item %s id=%d %s: no reply (%s)", it.kind, it.id, questionOf(it), end)
					if s.Failed() {
						return
					}

					continue
				}
				s.Failf("C01/response-count", tr+": query did not get exactly one response",
					"item %s id=%d %s: no reply (%s)", it.kind, it.id, questionOf(it), end)

				return
			}

			continue
		}
		plain, derr := dc.open(reply)
		if derr != nil {
			s.Failf("C01/undecodable-response", tr+": reply does not decrypt", "%v", derr)

			return
		}
		resp := &dns.Msg{}
		if uerr := resp.Unpack(plain); uerr != nil {
			s.Failf("C01/undecodable-response", tr+": server sent bytes that do not decode", "%v: % x", uerr, plain)

			return
		}
		if it.msg == nil {
			s.Failf("C01/unexpected-response", tr+": response to undecodable bytes", "%s", resp.String())

			return
		}
		if e.outcome == "none" {
			okQ := len(resp.Question) == 0 || (len(it.msg.Question) > 0 && resp.Question[0] == it.msg.Question[0])
			if resp.Rcode != dns.RcodeServerFailure || resp.Id != it.id || !okQ || len(resp.Answer)+len(resp.Ns) > 0 {
				s.Failf("C01/unexpected-response", tr+": response to a message that must be dropped",
					"item %s id=%d got %s", it.kind, it.id, resp.String())

				return
			}
			s.Probe("dnscrypt-servfail-for-dropped")

			continue
		}
		checkResponse(s, tr, it, resp, true)
		if s.Failed() {
			return
		}
		s.Probe(tr + "-answered")
	}
}
