package wire

import (
	"bytes"
	"context"
	"crypto/tls"
	"fmt"
	"io"
	"net"
	"net/http"
	"net/netip"
	"strings"
	"sync"
	"time"

	"github.com/AdguardTeam/AdGuardDNS/internal/dnsserver"
	"github.com/AdguardTeam/AdGuardDNS/verif/kernel"
	"github.com/AdguardTeam/AdGuardDNS/verif/simnet"
	"github.com/miekg/dns"
	"github.com/quic-go/quic-go"
	"golang.org/x/net/http2"
)

// C03, transport part: the identifier channels of the encrypted transports
// (TLS server name, DoH URL path, basic-auth user and password) reach the
// handler exactly as the client sent them, per request, also when requests
// with different identifiers share a connection or overlap.  The device
// finder (sysim part) decides on these values.

type c03Item struct {
	tr       string // dot, doq, doh-h1, doh-h2
	sni      string
	path     string
	user     string
	pass     string
	hasAuth  bool
	name     string
	answered bool
}

type c03Seen struct {
	sni, path, user, pass    string
	hasURL, hasUser, hasPass bool
	proto                    dnsserver.Protocol
	n                        int
}

func runC03(s *kernel.Sim, cfg string) {
	t := s.T
	n := simnet.New(s)
	if cfg == "timed" {
		n.Faults = simnet.Faults{Timed: true, Seed: uint64(t.Choose(1<<30, "net-seed")), Segment: true}
	}

	var mu sync.Mutex
	seen := map[string]*c03Seen{}
	p := &pipeline{}
	p.observe = func(ctx context.Context, _ dnsserver.ResponseWriter, req *dns.Msg) {
		ri := dnsserver.MustRequestInfoFromContext(ctx)
		si := dnsserver.MustServerInfoFromContext(ctx)
		mu.Lock()
		defer mu.Unlock()
		k := strings.ToLower(req.Question[0].Name)
		e := seen[k]
		if e == nil {
			e = &c03Seen{}
			seen[k] = e
		}
		e.n++
		e.proto = si.Proto
		e.sni = ri.TLSServerName
		if ri.URL != nil {
			e.hasURL, e.path = true, ri.URL.Path
		}
		if ri.Userinfo != nil {
			e.hasUser, e.user = true, ri.Userinfo.Username()
			e.pass, e.hasPass = ri.Userinfo.Password()
		}
	}
	sv := startServers(s, n, p, serverOpts{dot: true, doh: true, doq: true})
	defer sv.shutdown()

	snis := []string{"dns.sim.test", "dev1.d.sim.test", "DEV2.D.Sim.Test", "x.dev3.d.sim.test", "otr-prof1-my-phone.d.sim.test", "dev1xd.sim.test"}
	paths := []string{"/dns-query", "/dns-query/dev1", "/dns-query/DEV2", "/dns-query/dev3/extra", "/dns-query/otr-prof1-My-Phone", "/dns-query/"}
	users := []string{"dev1", "dev4", "DEV5", "", "otr-prof1-x"}
	passes := []string{"right", "wrong", "", "p:w"}

	nItems := t.Range(4, 20, "items")
	var items []*c03Item
	for i := 0; i < nItems; i++ {
		it := &c03Item{
			tr:   kernel.Pick(t, []string{"dot", "doq", "doh-h1", "doh-h2", "doh-h2", "doh-h3"}, "transport"),
			sni:  kernel.Pick(t, snis, "sni"),
			name: fmt.Sprintf("c03-%d.ident.test.", i),
		}
		if strings.HasPrefix(it.tr, "doh") {
			it.path = kernel.Pick(t, paths, "path")
			if t.Chance(1, 2, "basic-auth") {
				it.hasAuth = true
				it.user = kernel.Pick(t, users, "user")
				it.pass = kernel.Pick(t, passes, "pass")
			}
		}
		items = append(items, it)
	}

	// Requests that share a transport and a server name share a connection.
	groups := map[string][]*c03Item{}
	var order []string
	for _, it := range items {
		k := it.tr + "|" + it.sni
		if _, ok := groups[k]; !ok {
			order = append(order, k)
		}
		groups[k] = append(groups[k], it)
	}

	r := &runner{s: s}
	for gi, k := range order {
		g := groups[k]
		ip := clientIP(40 + gi)
		r.spawn(fmt.Sprintf("g%d-%s", gi, g[0].tr), func(tk *task) {
			switch g[0].tr {
			case "dot":
				c03DoT(tk, n, ip, g)
			case "doq":
				c03DoQ(tk, n, ip, g)
			default:
				c03DoH(tk, n, ip, g, g[0].tr)
			}
		})
	}
	r.wait()
	if s.Failed() != nil {
		return
	}

	mu.Lock()
	defer mu.Unlock()
	for _, it := range items {
		e := seen[it.name]
		s.Logf("%s sni=%q path=%q auth=%v user=%q pass=%q -> answered=%v seen=%+v", it.tr, it.sni, it.path, it.hasAuth, it.user, it.pass, it.answered, e)
		if !it.answered {
			s.Failf("C03/wire-unanswered", it.tr+": request was not answered", "%s sni=%q path=%q", it.name, it.sni, it.path)

			return
		}
		if e == nil || e.n != 1 {
			s.Failf("C03/wire-handler-count", it.tr+": request did not reach the handler exactly once", "%s: %+v", it.name, e)

			return
		}
		bad := ""
		switch {
		case e.sni != it.sni:
			bad = fmt.Sprintf("TLS server name %q, client sent %q", e.sni, it.sni)
		case strings.HasPrefix(it.tr, "doh") && (!e.hasURL || e.path != it.path):
			bad = fmt.Sprintf("URL path %q (present=%v), client sent %q", e.path, e.hasURL, it.path)
		case !strings.HasPrefix(it.tr, "doh") && (e.hasURL || e.hasUser):
			bad = "URL or userinfo on a transport that has none"
		case e.hasUser != it.hasAuth:
			bad = fmt.Sprintf("userinfo present=%v, client sent credentials=%v", e.hasUser, it.hasAuth)
		case it.hasAuth && (e.user != it.user || e.pass != it.pass || !e.hasPass):
			bad = fmt.Sprintf("userinfo %q:%q (password set=%v), client sent %q:%q", e.user, e.pass, e.hasPass, it.user, it.pass)
		}
		if bad != "" {
			s.Failf("C03/wire-identifier", it.tr+": the handler sees identification data the client did not send with this request",
				"%s: %s", it.name, bad)

			return
		}
		s.Probe("identifier-delivered-" + it.tr)
	}
	s.MarkNontrivial()
}

func c03Query(it *c03Item, id uint16) []byte {
	m := &dns.Msg{}
	m.SetQuestion(it.name, dns.TypeA)
	m.Id = id
	b, err := m.Pack()
	if err != nil {
		panic(err)
	}

	return b
}

func c03Check(tk *task, it *c03Item, body []byte) {
	resp := &dns.Msg{}
	if err := resp.Unpack(body); err != nil || len(resp.Question) != 1 || !strings.EqualFold(resp.Question[0].Name, it.name) {
		return
	}
	it.answered = true
}

func c03DoT(tk *task, n *simnet.Net, ip netip.Addr, g []*c03Item) {
	var chunks [][]byte
	for i, it := range g {
		chunks = append(chunks, withPrefix(c03Query(it, uint16(100+i))))
	}
	raw, err := n.Dial(addrDoT, n.ClientAddr(ip))
	if err != nil {
		return
	}
	tc := tls.Client(raw, clientTLS(g[0].sni))
	_ = tc.SetDeadline(time.Now().Add(10 * time.Second))
	if tc.Handshake() != nil {
		_ = raw.Close()

		return
	}
	_ = tc.SetDeadline(time.Time{})
	defer tc.Close()
	for _, ch := range chunks {
		tk.pause()
		_, _ = tc.Write(ch)
	}
	frames, _ := readFrames(tc, 4*time.Second)
	for _, f := range frames {
		for _, it := range g {
			c03Check(tk, it, f)
		}
	}
}

func c03DoQ(tk *task, n *simnet.Net, ip netip.Addr, g []*c03Item) {
	pc, err := n.DialPacket(n.ClientAddr(ip))
	if err != nil {
		panic(err)
	}
	defer pc.Close()
	tr := &quic.Transport{Conn: pc}
	defer tr.Close()
	ctx, cancel := context.WithTimeout(context.Background(), 60*time.Second)
	defer cancel()
	conn, derr := tr.Dial(ctx, net.UDPAddrFromAddrPort(netip.MustParseAddrPort(addrDoQ)),
		clientTLS(g[0].sni, "doq"), &quic.Config{MaxIdleTimeout: 100 * time.Second})
	if derr != nil {
		return
	}
	defer func() { _ = conn.CloseWithError(0, "") }()
	for _, it := range g {
		st, oerr := conn.OpenStreamSync(ctx)
		if oerr != nil {
			return
		}
		_, _ = st.Write(withPrefix(c03Query(it, 0)))
		_ = st.Close()
		_ = st.SetReadDeadline(time.Now().Add(50 * time.Second))
		body, _ := io.ReadAll(st)
		if len(body) > 2 {
			c03Check(tk, it, body[2:])
		}
	}
}

func c03DoH(tk *task, n *simnet.Net, ip netip.Addr, g []*c03Item, ver string) {
	useH2 := ver != "doh-h1"
	dial := func(ctx context.Context, cfg *tls.Config) (net.Conn, error) {
		raw, err := n.Dial(addrDoH, n.ClientAddr(ip))
		if err != nil {
			return nil, err
		}
		tc := tls.Client(raw, cfg)
		if herr := tc.HandshakeContext(ctx); herr != nil {
			return nil, herr
		}

		return tc, nil
	}
	var rt http.RoundTripper
	if ver == "doh-h3" {
		h3, done := h3Transport(n, ip, g[0].sni)
		defer done()
		rt = h3
	} else if useH2 {
		h2 := &http2.Transport{
			TLSClientConfig: clientTLS(g[0].sni, "h2"),
			DialTLSContext: func(ctx context.Context, _, _ string, cfg *tls.Config) (net.Conn, error) {
				return dial(ctx, cfg)
			},
		}
		defer h2.CloseIdleConnections()
		rt = h2
	} else {
		h1 := &http.Transport{
			DialTLSContext: func(ctx context.Context, _, _ string) (net.Conn, error) {
				return dial(ctx, clientTLS(g[0].sni, "http/1.1"))
			},
		}
		defer h1.CloseIdleConnections()
		rt = h1
	}

	// On HTTP/2 the requests of the group are in flight together on one
	// connection; on HTTP/1.1 they reuse the connection one after another.
	var wg sync.WaitGroup
	do := func(i int, it *c03Item) {
		defer wg.Done()
		req, _ := http.NewRequest(http.MethodPost, "https://"+strings.ToLower(g[0].sni)+it.path, bytes.NewReader(c03Query(it, 0)))
		req.Header.Set("Content-Type", "application/dns-message")
		if it.hasAuth {
			req.SetBasicAuth(it.user, it.pass)
		}
		ctx, cancel := context.WithTimeout(context.Background(), 100*time.Second)
		defer cancel()
		hr, err := rt.RoundTrip(req.WithContext(ctx))
		if err != nil {
			tk.Logf("doh %s: %v", it.name, err)

			return
		}
		body, _ := io.ReadAll(hr.Body)
		_ = hr.Body.Close()
		if hr.StatusCode == http.StatusOK {
			c03Check(tk, it, body)
		} else {
			tk.Logf("doh %s: status %d %q", it.name, hr.StatusCode, body)
		}
	}
	for i, it := range g {
		wg.Add(1)
		if useH2 {
			go do(i, it)
		} else {
			do(i, it)
		}
	}
	wg.Wait()
}
