//go:debug randseednop=0

package wire

import (
	"testing"
	"testing/cryptotest"

	"github.com/AdguardTeam/AdGuardDNS/verif/kernel"
)

func run(s *kernel.Sim, prop, cfg string) {
	switch prop {
	case "C01":
		runC01(s, cfg)
	case "C03":
		runC03(s, cfg)
	case "C06":
		runC06(s, cfg)
	case "C07":
		runC07(s, cfg)
	case "C08":
		runC08(s, cfg)
	case "C18":
		runC18(s, cfg)
	default:
		panic("wire: unknown property " + prop)
	}
}

func TestWorker(t *testing.T) {
	// The certificate is generated once per process from a fixed seed, so
	// that record sizes are the same in every process.
	cryptotest.SetGlobalRandom(t, 20000101)
	testCert()

	kernel.WorkerMain(t, &kernel.Engine{Name: "wire", Run: run, PinCrypto: true})
}
