package wire

import (
	"bytes"
	"context"
	"crypto/tls"
	"encoding/base64"
	"fmt"
	"io"
	"net"
	"net/http"
	"net/netip"
	"net/url"
	"runtime/debug"
	"slices"
	"strings"
	"time"

	"github.com/AdguardTeam/AdGuardDNS/verif/kernel"
	"github.com/AdguardTeam/AdGuardDNS/verif/simnet"
	"github.com/miekg/dns"
	"github.com/quic-go/quic-go"
	"golang.org/x/net/http2"
)

// C06: a message is interpreted from its own bytes only.  Two identically
// configured groups of servers run in the same bubble.  Group A first serves
// a history of well-formed "victim" queries whose names carry unique tokens,
// on every transport, so that its pooled receive buffers hold their bytes;
// group B stays fresh.  Then the same probe (a short or inconsistent message)
// is sent to both: the observable outcome must be identical, and no answer to
// the probe may contain a victim token.

type probeOutcome struct {
	desc   string
	tokens []string
}

func describeFrames(frames [][]byte, end string) (po probeOutcome) {
	var parts []string
	for _, f := range frames {
		m := &dns.Msg{}
		if err := m.Unpack(f); err != nil {
			parts = append(parts, fmt.Sprintf("undecodable(%d bytes)", len(f)))

			continue
		}
		parts = append(parts, strings.ReplaceAll(m.String(), "\n", " | "))
		if strings.Contains(strings.ToLower(m.String()), "victim") {
			po.tokens = append(po.tokens, m.String())
		}
	}
	po.desc = fmt.Sprintf("%d frames %v end=%s", len(frames), parts, end)

	return po
}

func victimQuery(i, size int) (raw []byte, name string) {
	name = fmt.Sprintf("tok-%d.victim.test.", i)
	m := &dns.Msg{}
	m.SetQuestion(name, dns.TypeA)
	m.Id = uint16(3000 + i)
	if size > 0 {
		m.SetEdns0(1232, false)
		m.IsEdns0().Option = append(m.IsEdns0().Option, &dns.EDNS0_PADDING{Padding: bytes.Repeat([]byte{'V'}, size)})
	}
	raw, err := m.Pack()
	if err != nil {
		panic(err)
	}

	return raw, name
}

// genProbe builds a short or inconsistent message.
func genProbe(t *kernel.Tape) (raw []byte, kind string) {
	m := &dns.Msg{}
	m.SetQuestion("probe.attacker.test.", dns.TypeA)
	m.Id = 4242
	if t.Chance(1, 2, "probe-edns") {
		m.SetEdns0(1232, false)
	}
	full, _ := m.Pack()

	switch t.Choose(6, "probe-kind") {
	case 0:
		// Header only, claiming one question.
		return full[:12], "header-only-qdcount1"
	case 1:
		k := 12 + t.Choose(len(full)-12, "cut")

		return full[:k], fmt.Sprintf("cut-at-%d", k)
	case 2:
		// Declares more answers than it carries.
		b := append([]byte(nil), full...)
		b[7] = 1 // ANCOUNT=1 (accepted by the server) without an answer record

		return b, "ancount1-without-record"
	case 3:
		b := append([]byte(nil), full...)
		b[5] = 2 // QDCOUNT=2 with one question

		return b, "qdcount2-one-question"
	case 4:
		b := append([]byte(nil), full[:12]...)
		b[5] = 1
		b[11] = 1 // one question, one additional, no data

		return b, "header-only-qd1-ar1"
	default:
		// Question name cut in the middle of a label.
		return full[:14], "cut-in-label"
	}
}

func udpProbe(n *simnet.Net, addr string, ip netip.Addr, raw []byte) (po probeOutcome) {
	return describeFrames(rawUDP(n, addr, ip, raw), "quiet")
}

func rawUDP(n *simnet.Net, addr string, ip netip.Addr, raw []byte) (frames [][]byte) {
	pc, err := n.DialPacket(n.ClientAddr(ip))
	if err != nil {
		panic(err)
	}
	defer pc.Close()

	_, _ = pc.WriteTo(raw, net.UDPAddrFromAddrPort(netip.MustParseAddrPort(addr)))
	buf := make([]byte, 65535+100)
	for {
		_ = pc.SetReadDeadline(time.Now().Add(3 * time.Second))
		k, _, rerr := pc.ReadFrom(buf)
		if rerr != nil {
			break
		}
		frames = append(frames, append([]byte(nil), buf[:k]...))
	}

	return frames
}

func streamProbe(tk *task, n *simnet.Net, addr string, tc *tls.Config, chunks [][]byte) (po probeOutcome) {
	frames, end := streamExchange(tk, n, addr, tc, chunks, false)

	return describeFrames(frames, end)
}

func dohProbe(n *simnet.Net, addr string, ip netip.Addr, raw []byte) (po probeOutcome) {
	status, body := rawDoH(n, addr, ip, raw)
	switch {
	case status == 0:
		return probeOutcome{desc: "transport error"}
	case status != http.StatusOK:
		return probeOutcome{desc: fmt.Sprintf("http %d", status)}
	}

	return describeFrames([][]byte{body}, "http 200")
}

// failingBody delivers its data and then fails, as the body of an upload whose
// sender gives up before the announced length is reached.
type failingBody struct {
	data []byte
	off  int
}

func (b *failingBody) Read(p []byte) (n int, err error) {
	if b.off >= len(b.data) {
		return 0, io.ErrUnexpectedEOF
	}
	n = copy(p, b.data[b.off:])
	b.off += n

	return n, nil
}

func (b *failingBody) Close() error { return nil }

func rawDoH(n *simnet.Net, addr string, ip netip.Addr, raw []byte) (status int, body []byte) {
	return rawDoHUpload(n, addr, ip, raw, false)
}

// rawDoHUpload posts raw; with abort set the request announces more octets
// than it carries and is given up once they are sent.
func rawDoHUpload(n *simnet.Net, addr string, ip netip.Addr, raw []byte, abort bool) (status int, body []byte) {
	return rawDoHAny(n, addr, ip, raw, abort, "")
}

// dohGetProbe sends raw as the dns parameter of a GET request, the base64
// text written as given (line breaks and all).
func dohGetProbe(n *simnet.Net, addr string, ip netip.Addr, param string) (po probeOutcome) {
	status, body := rawDoHAny(n, addr, ip, nil, false, param)
	switch {
	case status == 0:
		return probeOutcome{desc: "transport error"}
	case status != http.StatusOK:
		return probeOutcome{desc: fmt.Sprintf("http %d", status)}
	}

	return describeFrames([][]byte{body}, "http 200")
}

// base64Lines is raw in unpadded base64url with a line break after every
// every-th character and at the end, which decoders skip.
func base64Lines(raw []byte, every int) (param string) {
	enc := base64.RawURLEncoding.EncodeToString(raw)
	if every <= 0 {
		return enc
	}
	var sb strings.Builder
	for i, c := range enc {
		sb.WriteRune(c)
		if (i+1)%every == 0 {
			sb.WriteByte('\n')
		}
	}
	sb.WriteString("\n\n")

	return sb.String()
}

func rawDoHAny(n *simnet.Net, addr string, ip netip.Addr, raw []byte, abort bool, getParam string) (status int, body []byte) {
	h2 := &http2.Transport{
		TLSClientConfig: clientTLS("dns.sim.test", "h2"),
		DialTLSContext: func(ctx context.Context, _, _ string, cfg *tls.Config) (net.Conn, error) {
			c, err := n.Dial(addr, n.ClientAddr(ip))
			if err != nil {
				return nil, err
			}
			tc := tls.Client(c, cfg)
			if herr := tc.HandshakeContext(ctx); herr != nil {
				return nil, herr
			}

			return tc, nil
		},
	}
	defer h2.CloseIdleConnections()

	req, _ := http.NewRequest(http.MethodPost, "https://dns.sim.test/dns-query", bytes.NewReader(raw))
	if getParam != "" {
		req, _ = http.NewRequest(http.MethodGet, "https://dns.sim.test/dns-query?dns="+url.QueryEscape(getParam), nil)
	}
	if abort {
		req.Body = &failingBody{data: raw}
		req.GetBody = nil
		req.ContentLength = int64(len(raw) + 7)
	}
	req.Header.Set("Content-Type", "application/dns-message")
	ctx, cancel := context.WithTimeout(context.Background(), 8*time.Second)
	defer cancel()
	hr, err := h2.RoundTrip(req.WithContext(ctx))
	if err != nil {
		return 0, nil
	}
	body, _ = io.ReadAll(hr.Body)
	_ = hr.Body.Close()

	return hr.StatusCode, body
}

func doqExchange(n *simnet.Net, addr string, ip netip.Addr, msgs [][]byte) (outs []probeOutcome) {
	return doqExchangeFramed(n, addr, ip, msgs, false)
}

// doqExchangeFramed is doqExchange for messages that already carry their
// (possibly wrong) length prefix.
func doqExchangeFramed(n *simnet.Net, addr string, ip netip.Addr, msgs [][]byte, framed bool) (outs []probeOutcome) {
	return doqExchangeCut(n, addr, ip, msgs, framed, nil)
}

// doqExchangeCut is doqExchangeFramed with every message written to its
// stream in pieces that end at the offsets in cuts, a pause after each, so
// that the server reads the stream in as many steps.
func doqExchangeCut(n *simnet.Net, addr string, ip netip.Addr, msgs [][]byte, framed bool, cuts []int) (outs []probeOutcome) {
	if !framed {
		var fr [][]byte
		for _, m := range msgs {
			fr = append(fr, withPrefix(m))
		}
		msgs = fr
	}
	for _, body := range rawDoQCut(n, addr, ip, msgs, cuts) {
		if body != nil {
			outs = append(outs, describeFrames([][]byte{body}, "stream end"))
		} else {
			outs = append(outs, probeOutcome{desc: "no data"})
		}
	}

	return outs
}

// rawDoQ sends each message on a connection of its own and returns the
// response bodies without the length prefix (nil: no complete response).
func rawDoQ(n *simnet.Net, addr string, ip netip.Addr, msgs [][]byte) (outs [][]byte) {
	var fr [][]byte
	for _, m := range msgs {
		fr = append(fr, withPrefix(m))
	}

	return rawDoQFramed(n, addr, ip, fr)
}

// rawDoQFramed sends each framed message on a connection of its own.
func rawDoQFramed(n *simnet.Net, addr string, ip netip.Addr, msgs [][]byte) (outs [][]byte) {
	return rawDoQCut(n, addr, ip, msgs, nil)
}

// rawDoQCut is rawDoQFramed with the messages written in pieces.
func rawDoQCut(n *simnet.Net, addr string, ip netip.Addr, msgs [][]byte, cuts []int) (outs [][]byte) {
	pc, err := n.DialPacket(n.ClientAddr(ip))
	if err != nil {
		panic(err)
	}
	defer pc.Close()
	tr := &quic.Transport{Conn: pc}
	defer tr.Close()

	for _, raw := range msgs {
		ctx, cancel := context.WithTimeout(context.Background(), 120*time.Second)
		conn, derr := tr.Dial(ctx, net.UDPAddrFromAddrPort(netip.MustParseAddrPort(addr)),
			clientTLS("dns.sim.test", "doq"), &quic.Config{MaxIdleTimeout: 200 * time.Second})
		if derr != nil {
			cancel()
			outs = append(outs, nil)

			continue
		}
		st, oerr := conn.OpenStreamSync(ctx)
		if oerr != nil {
			cancel()
			outs = append(outs, nil)
			_ = conn.CloseWithError(0, "")

			continue
		}
		from := 0
		for _, c := range cuts {
			if c <= from || c >= len(raw) {
				continue
			}
			_, _ = st.Write(raw[from:c])
			from = c
			time.Sleep(20 * time.Millisecond)
		}
		_, _ = st.Write(raw[from:])
		_ = st.Close()
		_ = st.SetReadDeadline(time.Now().Add(100 * time.Second))
		body, rerr := io.ReadAll(st)
		cancel()
		if len(body) >= 2 && rerr == nil && int(body[0])<<8|int(body[1]) == len(body)-2 {
			outs = append(outs, body[2:])
		} else {
			outs = append(outs, nil)
		}
		_ = conn.CloseWithError(0, "")
	}

	return outs
}

func runC06(s *kernel.Sim, _ string) {
	t := s.T

	// Pooled buffers must survive until the probe: no garbage collection
	// during the run (the worker runs on one P, so a buffer put back is the
	// next one taken).
	old := debug.SetGCPercent(-1)
	defer debug.SetGCPercent(old)

	n := simnet.New(s)
	n.Faults = simnet.Faults{}
	p := &pipeline{}
	// In half of the runs the warmed plain-DNS and DoT servers listen through
	// interface listeners, which have receive buffers of their own.
	boundBuf := 0
	if t.Chance(1, 2, "bound") {
		boundBuf = kernel.Pick(t, []int{1, 4, 64}, "bound-chan")
		s.Probe("interface-bound-listeners")
	}
	sv := startServers(s, n, p, serverOpts{dot: true, doh: true, doq: true, setB: true, bound: boundBuf})
	defer sv.shutdown()

	raw, kind := genProbe(t)
	nHist := t.Range(1, 12, "history")
	sizes := make([]int, nHist)
	for i := range sizes {
		sizes[i] = kernel.Pick(t, []int{0, 0, 30, 200, 450, 700}, "victim-size")
	}
	aborted := make([]bool, nHist)
	for i := range aborted {
		aborted[i] = t.Chance(1, 4, "doh-upload-aborted")
	}
	getLines := kernel.Pick(t, []int{0, 0, 1, 3, 7}, "doh-get-line-breaks")
	lenPrefix := t.Choose(3, "prefix-mismatch")
	// Where the DoQ stream of the probe is cut into pieces (offsets into the
	// framed message), if anywhere.
	var doqCuts []int
	for i, k := 0, t.Choose(5, "doq-pieces"); i < k; i++ {
		doqCuts = append(doqCuts, 1+t.Choose(len(raw)+1, "doq-cut"))
	}
	slices.Sort(doqCuts)
	if len(doqCuts) > 0 {
		s.Probe("doq-stream-in-pieces")
	}
	s.Logf("probe %s (% x), history of %d victim queries %v", kind, raw, nHist, sizes)

	vip := clientIP(20)
	aip := clientIP(30)

	r := &runner{s: s}
	r.spawn("c06", func(tk *task) {
		// ---- history on group A ----
		var hist [][]byte
		for i, sz := range sizes {
			q, _ := victimQuery(i, sz)
			hist = append(hist, q)
		}

		for _, q := range hist {
			_ = udpProbe(n, addrDNS, vip, q)
		}
		var chunks [][]byte
		for _, q := range hist {
			chunks = append(chunks, withPrefix(q))
		}
		_, _ = streamExchange(tk, n, addrDNS, nil, chunks, false)
		_, _ = streamExchange(tk, n, addrDoT, clientTLS("dns.sim.test"), chunks, false)
		for i, q := range hist {
			if i%3 == 2 {
				// Some of the history arrives over GET.
				_ = dohGetProbe(n, addrDoH, vip, base64Lines(q, 0))

				continue
			}
			if aborted[i] {
				// An upload given up before its announced end.
				_, _ = rawDoHUpload(n, addrDoH, vip, q, true)
				tk.Fault("doh-upload-aborted")

				continue
			}
			_ = dohProbe(n, addrDoH, vip, q)
		}
		_ = doqExchange(n, addrDoQ, vip, hist)
		tk.Probe("history-messages")

		// ---- the probe on A (warm) and B (fresh) ----
		type pair struct {
			tr   string
			a, b probeOutcome
		}
		var pairs []pair

		pairs = append(pairs, pair{"udp", udpProbe(n, addrDNS, aip, raw), udpProbe(n, addrDNSB, aip, raw)})

		framed := withPrefix(raw)
		switch lenPrefix {
		case 1:
			// Prefix announces more than is sent; the client then closes.
			framed[1] += 7
		case 2:
			// Prefix announces less: the tail is read as the next message.
			if len(raw) > 14 {
				framed[0], framed[1] = 0, 12
			}
		}
		pairs = append(pairs, pair{"tcp", streamProbe(tk, n, addrDNS, nil, [][]byte{framed}), streamProbe(tk, n, addrDNSB, nil, [][]byte{framed})})
		pairs = append(pairs, pair{
			"dot",
			streamProbe(tk, n, addrDoT, clientTLS("dns.sim.test"), [][]byte{framed}),
			streamProbe(tk, n, addrDoTB, clientTLS("dns.sim.test"), [][]byte{framed}),
		})
		pairs = append(pairs, pair{"doh", dohProbe(n, addrDoH, aip, raw), dohProbe(n, addrDoHB, aip, raw)})
		// The same over GET, the parameter now and then with line breaks in
		// it (decoders skip them).
		getParam := base64Lines(raw, getLines)
		pairs = append(pairs, pair{"doh-get", dohGetProbe(n, addrDoH, aip, getParam), dohGetProbe(n, addrDoHB, aip, getParam)})
		// On DoQ the same framing variants: the prefix may announce more (or
		// less) than the stream carries before it ends.
		// The stream may reach the server in several pieces.
		qa := doqExchangeCut(n, addrDoQ, aip, [][]byte{framed}, true, doqCuts)
		qb := doqExchangeCut(n, addrDoQB, aip, [][]byte{framed}, true, doqCuts)
		pairs = append(pairs, pair{"doq", qa[0], qb[0]})

		for _, pr := range pairs {
			tk.Logf("%s: warm: %s", pr.tr, pr.a.desc)
			if len(pr.a.tokens) > 0 {
				tk.Failf("C06/leak", pr.tr+": answer to the probe contains another client's earlier traffic",
					"probe %s: %s", kind, pr.a.tokens[0])

				return
			}
			if pr.a.desc != pr.b.desc {
				tk.Failf("C06/history-dependent", pr.tr+": a warmed server treats the message differently from a fresh one",
					"probe %s (% x), prefix variant %d:\n warm:  %s\n fresh: %s", kind, raw, lenPrefix, pr.a.desc, pr.b.desc)

				return
			}
		}
		// ---- overlap: the attacker's traffic interleaved with victims' ----
		// All datagrams are queued at the server before it reads the first
		// one, and the stream connections have their messages in flight at
		// the same time, so that receive buffers are taken and released
		// while other messages are still being processed.
		c06Overlap(tk, n, hist, raw, vip, aip)
	})
	r.wait()
	s.MarkNontrivial()
}

// c06Own checks that every frame received by a client answers one of its own
// messages: ids maps a request ID to the lower-case question name sent with
// it.
func c06Own(tk *task, who, tr string, frames [][]byte, ids map[uint16]string, foreign string) {
	for _, f := range frames {
		m := &dns.Msg{}
		if err := m.Unpack(f); err != nil {
			tk.Failf("C06/overlap-undecodable", tr+": undecodable response under overlapping traffic", "% x", f)

			return
		}
		txt := strings.ToLower(m.String())
		if strings.Contains(txt, foreign) {
			tk.Failf("C06/overlap-leak", tr+": a client received a response made from another client's message",
				"%s got: %s", who, strings.ReplaceAll(m.String(), "\n", " | "))

			return
		}
		name, ok := ids[m.Id]
		if !ok {
			tk.Failf("C06/overlap-leak", tr+": a client received a response with an ID it never sent",
				"%s got id %d: %s", who, m.Id, strings.ReplaceAll(m.String(), "\n", " | "))

			return
		}
		if len(m.Question) == 1 && strings.ToLower(m.Question[0].Name) != name {
			tk.Failf("C06/overlap-leak", tr+": response pairs one message's ID with another message's question",
				"%s id %d sent %s got %s", who, m.Id, name, m.Question[0].Name)

			return
		}
	}
}

func c06Overlap(tk *task, n *simnet.Net, hist [][]byte, probe []byte, vip, aip netip.Addr) {
	vids := map[uint16]string{}
	for i := range hist {
		vids[uint16(3000+i)] = fmt.Sprintf("tok-%d.victim.test.", i)
	}
	am := &dns.Msg{}
	am.SetQuestion("whole.attacker.test.", dns.TypeA)
	am.Id = 4243
	whole, _ := am.Pack()
	// And a long one: its length prefix differs from a short message's in
	// the first octet too.
	lm := &dns.Msg{}
	lm.SetQuestion("whole.attacker.test.", dns.TypeA)
	lm.Id = 4243
	lm.SetEdns0(1232, false)
	lm.IsEdns0().Option = append(lm.IsEdns0().Option, &dns.EDNS0_PADDING{Padding: make([]byte, 300)})
	long, _ := lm.Pack()
	aids := map[uint16]string{4242: "probe.attacker.test.", 4243: "whole.attacker.test."}

	// UDP: one burst from two sockets.
	vpc, err := n.DialPacket(n.ClientAddr(vip))
	if err != nil {
		panic(err)
	}
	defer vpc.Close()
	apc, err := n.DialPacket(n.ClientAddr(aip))
	if err != nil {
		panic(err)
	}
	defer apc.Close()
	srv := net.UDPAddrFromAddrPort(netip.MustParseAddrPort(addrDNS))
	for i, q := range hist {
		if len(q) <= 512 {
			_, _ = vpc.WriteTo(q, srv)
		}
		switch i % 3 {
		case 0:
			_, _ = apc.WriteTo(whole, srv)
		case 1:
			_, _ = apc.WriteTo(probe, srv)
		}
	}
	collect := func(pc *simnet.PacketConn) (frames [][]byte) {
		buf := make([]byte, 65535)
		for {
			_ = pc.SetReadDeadline(time.Now().Add(2 * time.Second))
			k, _, rerr := pc.ReadFrom(buf)
			if rerr != nil {
				return frames
			}
			frames = append(frames, append([]byte(nil), buf[:k]...))
		}
	}
	vf, af := collect(vpc), collect(apc)
	tk.Logf("overlap udp: victim got %d, attacker got %d datagrams", len(vf), len(af))
	c06Own(tk, "victim", "udp", vf, vids, "attacker")
	if tk.Failed() {
		return
	}
	c06Own(tk, "attacker", "udp", af, aids, "victim")
	if tk.Failed() {
		return
	}
	nv := 0
	for _, q := range hist {
		if len(q) <= 512 {
			nv++
		}
	}
	if len(vf) != nv {
		tk.Failf("C06/overlap-count", "udp: victim's burst did not get one response per query", "sent %d got %d", nv, len(vf))

		return
	}

	// Streams: two connections with their messages in flight together.
	for _, st := range []struct {
		tr, addr string
		tc       *tls.Config
	}{{"tcp", addrDNS, nil}, {"dot", addrDoT, clientTLS("dns.sim.test")}} {
		open := func(ip netip.Addr) (c net.Conn) {
			rc, derr := n.Dial(st.addr, n.ClientAddr(ip))
			if derr != nil {
				panic(derr)
			}
			c = rc
			if st.tc != nil {
				tc := tls.Client(rc, st.tc)
				_ = tc.SetDeadline(time.Now().Add(5 * time.Second))
				if herr := tc.Handshake(); herr != nil {
					panic(herr)
				}
				_ = tc.SetDeadline(time.Time{})
				c = tc
			}

			return c
		}
		vc, ac := open(vip), open(aip)
		for i, q := range hist {
			if i%3 == 1 {
				// The victim's length prefix arrives in two pieces, and a
				// whole message of the attacker's in between.
				fq := withPrefix(q)
				_, _ = vc.Write(fq[:1])
				time.Sleep(2 * time.Millisecond)
				_, _ = ac.Write(withPrefix(long))
				time.Sleep(2 * time.Millisecond)
				_, _ = vc.Write(fq[1:])

				continue
			}
			_, _ = vc.Write(withPrefix(q))
			if i%2 == 0 {
				_, _ = ac.Write(withPrefix(whole))
			}
		}
		// The probe last: it may end the attacker's connection.
		_, _ = ac.Write(withPrefix(probe))
		vfr, _ := readFrames(vc, 2*time.Second)
		afr, _ := readFrames(ac, 2*time.Second)
		_ = vc.Close()
		_ = ac.Close()
		tk.Logf("overlap %s: victim got %d, attacker got %d frames", st.tr, len(vfr), len(afr))
		c06Own(tk, "victim", st.tr, vfr, vids, "attacker")
		if tk.Failed() {
			return
		}
		c06Own(tk, "attacker", st.tr, afr, aids, "victim")
		if tk.Failed() {
			return
		}
		if len(vfr) != len(hist) {
			tk.Failf("C06/overlap-count", st.tr+": victim's pipelined queries did not get one response each", "sent %d got %d", len(hist), len(vfr))

			return
		}
	}
	tk.Probe("overlap-phase")
}
