package wire

import (
	"bytes"
	"context"
	"crypto/tls"
	"fmt"
	"github.com/AdguardTeam/AdGuardDNS/internal/dnsmsg"
	"io"
	"net/http"
	"runtime"
	"time"

	"github.com/AdguardTeam/AdGuardDNS/verif/kernel"
	"github.com/AdguardTeam/AdGuardDNS/verif/simnet"
	"github.com/miekg/dns"
)

// C08: size limits and safe truncation, judged on the bytes the client
// receives.  The handler response is generated from the query name
// (s<N>[o[p]].size.test: about N bytes, "o" = with an OPT of its own, "op" =
// with a padding option in it).

type c08Query struct {
	raw       []byte
	msg       *dns.Msg
	hasOPT    bool
	udpSize   uint16
	padding   bool
	keepalive bool
}

func genC08Query(t *kernel.Tape, id uint16) (q c08Query) {
	sizes := []int{0, 100, 400, 500, 511, 512, 513, 600, 1200, 1231, 1232, 1233, 1500, 4000, 4095, 4096, 4097, 9000, 30000, 65000, 65400, 65500, 65535, 66000}
	size := kernel.Pick(t, sizes, "resp-size")
	edge := false
	if t.Chance(1, 6, "size-at-the-edge") {
		// Every size in the last hundred octets below the stream limit:
		// options added after truncation must still fit.
		size = 65440 + t.Choose(101, "edge")
		edge = true
	} else if t.Chance(1, 3, "size-jitter") {
		size += t.Choose(40, "jitter") - 20
		if size < 0 {
			size = 0
		}
	}
	own := ""
	if t.Chance(1, 3, "handler-opt") {
		own = kernel.Pick(t, []string{"o", "o", "op"}, "handler-opt-kind")
	}

	m := &dns.Msg{}
	m.Id = id
	m.RecursionDesired = true
	m.Question = []dns.Question{{Name: fmt.Sprintf("s%d%s.size.test.", size, own), Qtype: dns.TypeTXT, Qclass: dns.ClassINET}}

	if t.Chance(3, 4, "edns") {
		q.hasOPT = true
		q.udpSize = kernel.Pick(t, []uint16{1232, 0, 511, 512, 513, 4096, 65535, 300}, "udp-size")
		m.SetEdns0(q.udpSize, t.Chance(1, 3, "do"))
		opt := m.IsEdns0()
		if t.Chance(1, 3, "padding") || (edge && t.Chance(1, 2, "padding-at-edge")) {
			q.padding = true
			opt.Option = append(opt.Option, &dns.EDNS0_PADDING{Padding: make([]byte, t.Choose(30, "pad"))})
		}
		if t.Chance(1, 4, "keepalive") || (edge && t.Chance(1, 2, "keepalive-at-edge")) {
			q.keepalive = true
			opt.Option = append(opt.Option, &dns.EDNS0_TCP_KEEPALIVE{Code: dns.EDNS0TCPKEEPALIVE})
		}
		if t.Chance(1, 4, "nsid") {
			opt.Option = append(opt.Option, &dns.EDNS0_NSID{Code: dns.EDNS0NSID, Nsid: "6e73696431323334"})
		}
		if t.Chance(1, 6, "unknown-opt") {
			opt.Option = append(opt.Option, &dns.EDNS0_LOCAL{Code: 65001, Data: []byte{1, 2, 3, 4}})
		}
	}

	raw, err := m.Pack()
	if err != nil {
		panic(err)
	}
	q.raw, q.msg = raw, m

	return q
}

func checkC08(tk *task, tr string, encrypted, stream bool, limit int, q c08Query, body []byte) {
	if len(body) > limit && tr == "dnscrypt-udp" {
		// The server truncates to the limit counting name compression; the
		// DNSCrypt layer then sends the message without compression.
		m := &dns.Msg{}
		if m.Unpack(body) == nil {
			m.Compress = true
			if m.Len() <= limit {
				tk.Failf("C08/dnscrypt-udp-uncompressed",
					"dnscrypt-udp: message fits the limit only with name compression but is sent without it",
					"%s (udp size %d, opt=%v): %d bytes as sent, %d bytes compressed, limit %d",
					q.msg.Question[0].Name, q.udpSize, q.hasOPT, len(body), m.Len(), limit)
				if tk.Failed() {
					return
				}
				// A listed finding: judge the rest against the size the
				// message has with compression.
				limit = len(body)
			}
		}
	}
	if len(body) > limit {
		w := fmt.Sprintf("%s: response larger than the transport's limit", tr)
		tk.Failf("C08/too-large", w, "%s %s (udp size %d, opt=%v): %d bytes on the wire, limit %d",
			tr, q.msg.Question[0].Name, q.udpSize, q.hasOPT, len(body), limit)

		return
	}

	resp := &dns.Msg{}
	if err := resp.Unpack(body); err != nil {
		tk.Failf("C08/undecodable", tr+": response does not decode", "%s %s: %v", tr, q.msg.Question[0].Name, err)

		return
	}

	wantRcode, an, ns, ex, _, _ := answerFor(q.msg.Question[0])
	if resp.Rcode != wantRcode {
		// A response that does not fit is truncated, not replaced by an
		// error.
		tk.Failf("C08/error-instead-of-answer", tr+": response carries another rcode than the handler's",
			"%s %s (udp size %d, padding=%v, keep-alive=%v): rcode %d, handler wrote %d",
			tr, q.msg.Question[0].Name, q.udpSize, q.padding, q.keepalive, resp.Rcode, wantRcode)

		return
	}
	wrote := len(an) + len(ns) + len(ex)
	got := len(resp.Answer) + len(resp.Ns)
	for _, rr := range resp.Extra {
		if rr.Header().Rrtype != dns.TypeOPT {
			got++
		}
	}
	if resp.Rcode == dns.RcodeSuccess && got < wrote {
		tk.Probe("truncated-" + tr)
		if tr == "dnscrypt-tcp" && resp.Truncated && len(resp.Answer) != 0 && len(body) > 65535-64-1100 {
			tk.Failf("C08/dnscrypt-tcp-envelope-truncation",
				"dnscrypt-tcp: response that fits 65535 but not 65535 minus the envelope is cut by the DNSCrypt layer with TC set and answers kept",
				"%s: handler wrote %d records, client got %d, tc=%v answers=%d, %d bytes",
				q.msg.Question[0].Name, wrote, got, resp.Truncated, len(resp.Answer), len(body))
			if tk.Failed() {
				return
			}
		} else if !resp.Truncated || len(resp.Answer) != 0 {
			tk.Failf("C08/unsafe-truncation", tr+": records dropped without TC and an empty answer section",
				"%s %s: handler wrote %d records, client got %d, tc=%v answers=%d",
				tr, q.msg.Question[0].Name, wrote, got, resp.Truncated, len(resp.Answer))

			return
		}
	}

	opt := resp.IsEdns0()
	if q.hasOPT {
		if opt == nil {
			tk.Failf("C08/opt-missing", tr+": query with OPT got a response without one", "%s %s", tr, q.msg.Question[0].Name)

			return
		}
		if opt.Version() != 0 {
			tk.Failf("C08/opt-version", tr+": response OPT version is not 0", "%s: version %d", tr, opt.Version())

			return
		}
		if opt.UDPSize() != q.udpSize {
			w := tr + ": response OPT does not carry the client's UDP size"
			_, _, _, _, own, _ := answerFor(q.msg.Question[0])
			if own == 0 {
				w += " (handler response had no OPT)"
			}
			tk.Failf("C08/opt-udp-size", w, "%s %s: client advertised %d, response says %d",
				tr, q.msg.Question[0].Name, q.udpSize, opt.UDPSize())

			return
		}
	}

	if opt != nil {
		for _, o := range opt.Option {
			switch o.Option() {
			case dns.EDNS0PADDING:
				if !encrypted || !q.padding {
					tk.Failf("C08/padding", tr+": padding on a plain transport or without the client asking",
						"%s: encrypted=%v client-padding=%v", tr, encrypted, q.padding)

					return
				}
				tk.Probe("padded-" + tr)
			case dns.EDNS0TCPKEEPALIVE:
				if !(tr == "tcp" || tr == "dot") || !q.keepalive {
					tk.Failf("C08/keepalive", tr+": keep-alive option returned where it must not be",
						"%s: client-keepalive=%v", tr, q.keepalive)

					return
				}
				tk.Probe("keepalive-" + tr)
			}
		}
	}
}

func runC08(s *kernel.Sim, _ string) {
	t := s.T
	n := simnet.New(s)
	n.Faults = simnet.Faults{}
	maxUDP := kernel.Pick(t, []uint16{1232, 0, 512, 4096, 65535}, "max-udp-resp")
	p := &pipeline{}
	if t.Chance(1, 2, "production-cloner") {
		// The handler's responses are clones from the pools of the production
		// cloner, into which the servers release what they have written
		// (options the servers added included).
		p.cloner = dnsmsg.NewCloner(dnsmsg.EmptyClonerStat{})
		s.Probe("production-cloner")
	}
	boundBuf := 0
	if t.Chance(1, 3, "bound") {
		boundBuf = kernel.Pick(t, []int{1, 4, 64}, "bound-chan")
		s.Probe("interface-bound-listeners")
	}
	sv := startServers(s, n, p, serverOpts{dot: true, doh: true, doq: true, dnscrypt: true, maxUDPRespSize: maxUDP, bound: boundBuf})
	defer sv.shutdown()
	defer runtime.GC()

	nq := t.Range(2, 8, "queries")
	qs := make([]c08Query, nq)
	for i := range qs {
		qs[i] = genC08Query(t, uint16(100+i))
		s.Logf("query %d: %s opt=%v udp=%d pad=%v ka=%v (server max udp %d)", i, qs[i].msg.Question[0].Name,
			qs[i].hasOPT, qs[i].udpSize, qs[i].padding, qs[i].keepalive, maxUDP)
	}

	r := &runner{s: s}
	r.spawn("c08", func(tk *task) {
		ip := clientIP(40)
		for _, q := range qs {
			// UDP limit from the statement: max(512, min(advertised, configured)).
			adv := 512
			if q.hasOPT {
				adv = int(q.udpSize)
			}
			limit := adv
			if int(maxUDP) < limit {
				limit = int(maxUDP)
			}
			if limit < 512 {
				limit = 512
			}

			frames := rawUDP(n, addrDNS, ip, q.raw)
			if len(frames) != 1 {
				tk.Failf("C08/no-answer", "udp: no single answer", "%s: %d datagrams", q.msg.Question[0].Name, len(frames))

				return
			}
			checkC08(tk, "udp", false, false, limit, q, frames[0])
			if tk.Failed() {
				return
			}

			for _, x := range []struct {
				tr   string
				addr string
				tc   *tls.Config
			}{{"tcp", addrDNS, nil}, {"dot", addrDoT, clientTLS("dns.sim.test")}} {
				fr, end := streamExchange(tk, n, x.addr, x.tc, [][]byte{withPrefix(q.raw)}, false)
				if len(fr) != 1 {
					tk.Failf("C08/no-answer", x.tr+": no single answer", "%s: %d frames, end %s", q.msg.Question[0].Name, len(fr), end)

					return
				}
				checkC08(tk, x.tr, x.tc != nil, true, 65535, q, fr[0])
				if tk.Failed() {
					return
				}
			}

			status, body := rawDoH(n, addrDoH, ip, q.raw)
			if status != http.StatusOK {
				tk.Failf("C08/no-answer", "doh: no answer", "%s: status %d", q.msg.Question[0].Name, status)

				return
			}
			checkC08(tk, "doh", true, true, 65535, q, body)
			if tk.Failed() {
				return
			}

			// The same over HTTP/3.
			{
				h3, done := h3Transport(n, ip, "dns.sim.test")
				hreq, _ := http.NewRequest(http.MethodPost, "https://dns.sim.test/dns-query", bytes.NewReader(q.raw))
				hreq.Header.Set("Content-Type", "application/dns-message")
				hctx, hcancel := context.WithTimeout(context.Background(), 100*time.Second)
				hr, herr := h3.RoundTrip(hreq.WithContext(hctx))
				if herr != nil || hr.StatusCode != http.StatusOK {
					hcancel()
					done()
					tk.Failf("C08/no-answer", "doh-h3: no answer", "%s: %v", q.msg.Question[0].Name, herr)

					return
				}
				b3, _ := io.ReadAll(hr.Body)
				_ = hr.Body.Close()
				hcancel()
				done()
				checkC08(tk, "doh-h3", true, true, 65535, q, b3)
				if tk.Failed() {
					return
				}
			}

			// DNSCrypt: the limit of the statement applies to the datagram on
			// the wire, envelope included.
			{
				dc := newDCClient(sv.dcCert, uint64(q.msg.Id))
				dlimit := adv
				if maxUDP > 0 && int(maxUDP) < dlimit {
					// The configured maximum (zero is not a value a
					// configuration can have).
					dlimit = int(maxUDP)
				}
				if dlimit < 512 {
					dlimit = 512
				}
				if len(q.raw) <= 1000 {
					fr := rawUDP(n, addrDC, ip, dc.seal(q.raw))
					if len(fr) != 1 {
						tk.Failf("C08/no-answer", "dnscrypt-udp: no single answer", "%s: %d datagrams", q.msg.Question[0].Name, len(fr))

						return
					}
					plain, derr := dc.open(fr[0])
					if derr != nil {
						tk.Failf("C08/undecodable", "dnscrypt-udp: reply does not decrypt", "%v", derr)

						return
					}
					// First the message inside the envelope, then the
					// datagram as a whole.
					checkC08(tk, "dnscrypt-udp", false, false, dlimit, q, plain)
					if tk.Failed() {
						return
					}
					if len(fr[0]) > dlimit {
						tk.Failf("C08/dnscrypt-udp-envelope", "dnscrypt-udp: datagram on the wire larger than the limit (message inside fits)",
							"%s (udp size %d, opt=%v): %d bytes on the wire, %d bytes of DNS message, limit %d",
							q.msg.Question[0].Name, q.udpSize, q.hasOPT, len(fr[0]), len(plain), dlimit)
						if tk.Failed() {
							return
						}
					}
				}
				fr, end := streamExchange(tk, n, addrDC, nil, [][]byte{withPrefix(dc.seal(q.raw))}, false)
				var asked int
				_, _ = fmt.Sscanf(q.msg.Question[0].Name, "s%d", &asked)
				if len(fr) != 1 && asked >= 65300 {
					// The DNSCrypt layer leaves 64 octets for its envelope,
					// which needs up to 111: the framed length wraps around.
					tk.Failf("C08/dnscrypt-tcp-envelope-overflow",
						"dnscrypt-tcp: a response of nearly 65535 octets plus the DNSCrypt envelope overflows the two-octet length prefix",
						"%s: %d frames, end %s", q.msg.Question[0].Name, len(fr), end)
					if tk.Failed() {
						return
					}
					fr = nil
				} else if len(fr) != 1 {
					tk.Failf("C08/no-answer", "dnscrypt-tcp: no single answer", "%s: %d frames, end %s", q.msg.Question[0].Name, len(fr), end)

					return
				}
				if len(fr) == 0 {
					// Listed finding met: nothing to judge for this exchange.
				} else if len(fr[0]) > 65535 {
					tk.Failf("C08/too-large", "dnscrypt-tcp: response larger than the transport's limit", "%d", len(fr[0]))

					return
				}
				if len(fr) == 1 {
					plain, derr := dc.open(fr[0])
					if derr != nil {
						tk.Failf("C08/undecodable", "dnscrypt-tcp: reply does not decrypt", "%v", derr)

						return
					}
					checkC08(tk, "dnscrypt-tcp", false, true, 65535, q, plain)
					if tk.Failed() {
						return
					}
				}
			}

			out := rawDoQ(n, addrDoQ, ip, [][]byte{q.raw})
			if q.keepalive {
				if out[0] != nil {
					tk.Failf("C08/doq-keepalive", "doq: query carrying keep-alive was answered", "%s", q.msg.Question[0].Name)

					return
				}
				tk.Probe("doq-keepalive-rejected")

				continue
			}
			if out[0] == nil {
				tk.Failf("C08/no-answer", "doq: no answer", "%s", q.msg.Question[0].Name)

				return
			}
			checkC08(tk, "doq", true, true, 65535, q, out[0])
			if tk.Failed() {
				return
			}
		}
	})
	r.wait()
	if s.Failed() != nil {
		return
	}

	// A query the handler leaves unanswered: the transports that must end the
	// exchange with something (DoQ, DNSCrypt) send an error of their own, and
	// a query with an OPT record gets one back there too.
	r.spawn("c08-unanswered", func(tk *task) {
		m := &dns.Msg{}
		m.Id = 900
		m.Question = []dns.Question{{Name: "nowrite.size.test.", Qtype: dns.TypeA, Qclass: dns.ClassINET}}
		size := kernel.Pick(t, []uint16{1232, 4096, 512}, "unanswered-udp-size")
		m.SetEdns0(size, false)
		raw, _ := m.Pack()
		q := c08Query{raw: raw, msg: m, hasOPT: true, udpSize: size}
		ip := clientIP(41)

		judge := func(tr string, body []byte) {
			resp := &dns.Msg{}
			if err := resp.Unpack(body); err != nil {
				tk.Failf("C08/undecodable", tr+": response does not decode", "%v", err)

				return
			}
			opt := resp.IsEdns0()
			if opt == nil || opt.UDPSize() != q.udpSize || opt.Version() != 0 {
				tk.Failf("C08/opt-missing", tr+": the server's own error response to a query with OPT carries no matching OPT",
					"%s: rcode %d, opt %v (client advertised %d)", tr, resp.Rcode, opt, q.udpSize)
			}
		}

		if out := rawDoQ(n, addrDoQ, ip, [][]byte{raw}); out[0] != nil {
			judge("doq", out[0])
			tk.Probe("doq-own-error-response")
		}
		if tk.Failed() {
			return
		}
		dc := newDCClient(sv.dcCert, 77)
		if fr := rawUDP(n, addrDC, ip, dc.seal(raw)); len(fr) == 1 {
			if plain, derr := dc.open(fr[0]); derr == nil {
				judge("dnscrypt-udp", plain)
				tk.Probe("dnscrypt-own-error-response")
			}
		}
	})
	r.wait()
	s.MarkNontrivial()
}
