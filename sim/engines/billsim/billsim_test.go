// Package billsim simulates the billing-statistics recorder (property C16):
// real billstat.RuntimeRecorder, simulated Uploader, recorder and refresher
// tasks interleaved by the kernel's scheduler.
package billsim

import (
	"context"
	"errors"
	"fmt"
	"io"
	"log/slog"
	"net"
	"sort"
	"testing"
	"time"

	"github.com/AdguardTeam/AdGuardDNS/internal/agd"
	"github.com/AdguardTeam/AdGuardDNS/internal/billstat"
	"github.com/AdguardTeam/AdGuardDNS/internal/geoip"
	"github.com/AdguardTeam/AdGuardDNS/verif/kernel"
)

type nopErrColl struct{}

func (nopErrColl) Collect(context.Context, error) {}

// call is one Record call as the harness saw it.
type call struct {
	dev     agd.DeviceID
	t       time.Time
	ctry    geoip.Country
	asn     geoip.ASN
	proto   agd.Protocol
	invoke  int
	ret     int
	started bool
	done    bool
}

type world struct {
	s         *kernel.Sim
	clock     int
	calls     []*call
	byTime    map[int64]*call
	delivered map[agd.DeviceID]int
	uploads   int
	failNext  func() bool

	// inFlight is the number of Refresh calls in progress; overlapped is set
	// when two of them ever overlapped.  Production runs a single refresh
	// worker, and with overlapping refreshes "most recent query" is not well
	// defined for a restored batch, so the recency clause of the metadata
	// oracle is applied only to runs without overlap.
	inFlight   int
	overlapped bool
}

func (w *world) tick() (n int) {
	w.clock++

	return w.clock
}

// slowMetrics is a metrics collector that takes its time: other tasks get to
// run during each of its calls.
type slowMetrics struct{ s *kernel.Sim }

func (m *slowMetrics) BufferSizeSet(context.Context, float64) { m.s.Yield("metrics-buffer-size") }

func (m *slowMetrics) HandleUploadDuration(context.Context, float64, bool) {
	m.s.Yield("metrics-upload-duration")
}

type uploader struct{ w *world }

// refreshCtxKey carries the invoke stamp of the Refresh call to Upload.
type refreshCtxKey struct{}

// refreshCancelKey carries the function that ends the context of the Refresh
// call.
type refreshCancelKey struct{}

func (u *uploader) Upload(ctx context.Context, records billstat.Records) (err error) {
	w := u.w
	s := w.s
	invoke := w.tick()
	refreshInvoke, _ := ctx.Value(refreshCtxKey{}).(int)

	snap := map[agd.DeviceID]billstat.Record{}
	for id, r := range records {
		snap[id] = *r
	}

	fail := w.failNext()
	if ctx.Err() != nil {
		// As a real uploader, this one does not deliver for a caller whose
		// context is over.
		s.Logf("upload#%d invoke@%d: context is done", w.uploads, invoke)
		w.uploads++

		return fmt.Errorf("uploading records: %w", ctx.Err())
	}
	kind := 0
	if fail {
		kind = s.T.Choose(5, "upload-error-kind")
	}
	s.Logf("upload#%d invoke@%d devices=%d fail=%v", w.uploads, invoke, len(records), fail)
	w.uploads++

	// The upload is in flight: records may arrive meanwhile.
	s.Yield("upload-in-flight")

	for id, r := range records {
		if snap[id] != *r {
			s.Failf("C16/batch-mutated", "batch changed while upload in flight",
				"device %s: batch handed to uploader changed during upload: %+v -> %+v", id, snap[id], *r)
		}
	}
	if len(records) != len(snap) {
		s.Failf("C16/batch-mutated", "batch changed while upload in flight",
			"batch size changed during upload: %d -> %d", len(snap), len(records))
	}

	if fail {
		s.Fault("upload-failed")

		// The ways an upload to the backend fails: an error of the service, a
		// deadline or a cancellation of the call, a broken connection.
		switch kind {
		case 1:
			s.Fault("upload-deadline-exceeded")

			return fmt.Errorf("uploading records: %w", context.DeadlineExceeded)
		case 2:
			s.Fault("upload-cancelled")

			return fmt.Errorf("uploading records: %w", context.Canceled)
		case 3:
			return fmt.Errorf("uploading records: %w", io.ErrUnexpectedEOF)
		case 4:
			return &net.OpError{Op: "write", Net: "tcp", Err: errors.New("connection reset by peer")}
		}

		return errors.New("simulated upload failure")
	}

	for id, r := range snap {
		w.delivered[id] += int(r.Queries)
		w.checkMeta(id, r, invoke, refreshInvoke)
	}

	w.checkNoOvercount("after upload")

	if cancel, ok := ctx.Value(refreshCancelKey{}).(context.CancelFunc); ok && s.T.Chance(1, 8, "context-ends-as-upload-succeeds") {
		// The backend has taken the batch; the caller's deadline passes (or
		// the shutdown begins) at that very moment.  Delivered is delivered.
		cancel()
		s.Fault("context-ended-during-successful-upload")
	}

	return nil
}

// checkMeta checks that the delivered metadata is that of a most recent query.
func (w *world) checkMeta(id agd.DeviceID, r billstat.Record, uploadInvoke, refreshInvoke int) {
	s := w.s
	c := w.byTime[r.Time.UnixNano()]
	if c == nil || c.dev != id {
		s.Failf("C16/metadata", "delivered time belongs to no query of the device",
			"device %s: delivered time %v is not the time of any of its queries", id, r.Time)

		return
	}

	if c.ctry != r.Country || c.asn != r.ASN || c.proto != r.Proto {
		s.Failf("C16/metadata", "delivered fields mix several queries",
			"device %s: delivered %+v but the query at that time had ctry=%s asn=%d proto=%v",
			id, r, c.ctry, c.asn, c.proto)

		return
	}

	if !c.started || c.invoke > uploadInvoke {
		s.Failf("C16/metadata", "delivered metadata from the future",
			"device %s: delivered query invoked@%d after upload invoke@%d", id, c.invoke, uploadInvoke)

		return
	}

	// No other query of the device may lie entirely between c's return and
	// the start of the refresh that delivered the batch.
	for _, o := range w.calls {
		if w.overlapped {
			break
		}

		if o.dev == id && o.done && c.done && o.invoke > c.ret && o.ret < refreshInvoke {
			s.Failf("C16/metadata", "delivered metadata is not of the most recent query",
				"device %s: delivered query [%d,%d] but query [%d,%d] came later and before refresh@%d",
				id, c.invoke, c.ret, o.invoke, o.ret, refreshInvoke)

			return
		}
	}
}

func (w *world) checkNoOvercount(where string) {
	started := map[agd.DeviceID]int{}
	for _, c := range w.calls {
		if c.started {
			started[c.dev]++
		}
	}

	for id, n := range w.delivered {
		if n > started[id] {
			w.s.Failf("C16/conservation", "delivered more than recorded",
				"%s: device %s: delivered %d > recorded %d", where, id, n, started[id])
		}
	}
}

var (
	ctries = []geoip.Country{geoip.CountryNone, "US", "DE", "JP"}
	protos = []agd.Protocol{agd.ProtoDNS, agd.ProtoDoH, agd.ProtoDoQ, agd.ProtoDoT, agd.ProtoDNSCrypt}
)

func run(s *kernel.Sim, _, cfg string) {
	t := s.T
	w := &world{
		s:         s,
		byTime:    map[int64]*call{},
		delivered: map[agd.DeviceID]int{},
	}

	faults := cfg != "nofault"
	w.failNext = func() bool { return faults && t.Chance(1, 3, "upload-fail") }

	rec := billstat.NewRuntimeRecorder(&billstat.RuntimeRecorderConfig{
		Logger:   slog.New(slog.DiscardHandler),
		ErrColl:  nopErrColl{},
		Uploader: &uploader{w: w},
		Metrics:  &slowMetrics{s: s},
	})

	nDev := t.Range(1, 4, "devices")
	devs := make([]agd.DeviceID, nDev)
	for i := range devs {
		devs[i] = agd.DeviceID(fmt.Sprintf("dev%d", i))
	}

	nRec := t.Range(1, 4, "recorders")
	nRef := t.Range(1, 2, "refreshers")
	base := time.Date(2000, 1, 1, 0, 0, 0, 0, time.UTC)
	ctx := context.Background()

	for i := 0; i < nRec; i++ {
		name := fmt.Sprintf("rec%d", i)
		n := t.Range(1, 10, "records")
		plan := make([]*call, n)
		for j := range plan {
			c := &call{
				dev:   kernel.Pick(t, devs, "dev"),
				ctry:  kernel.Pick(t, ctries, "ctry"),
				asn:   geoip.ASN(t.Range(0, 3, "asn")),
				proto: kernel.Pick(t, protos, "proto"),
			}
			w.calls = append(w.calls, c)
			c.t = base.Add(time.Duration(len(w.calls)) * time.Millisecond)
			w.byTime[c.t.UnixNano()] = c
			plan[j] = c
		}

		s.Go(name, func() {
			for _, c := range plan {
				s.Yield("before-record")
				c.invoke = w.tick()
				c.started = true
				rec.Record(ctx, c.dev, c.ctry, c.asn, c.t, c.proto)
				c.ret = w.tick()
				c.done = true
				s.Logf("%s: record %s t=%d [%d,%d]", name, c.dev, c.t.Sub(base).Milliseconds(), c.invoke, c.ret)
			}
		})
	}

	for i := 0; i < nRef; i++ {
		name := fmt.Sprintf("ref%d", i)
		n := t.Range(1, 4, "refreshes")
		s.Go(name, func() {
			for j := 0; j < n; j++ {
				s.Yield("before-refresh")
				rctx := context.WithValue(ctx, refreshCtxKey{}, w.tick())
				rctx, endCtx := context.WithCancel(rctx)
				rctx = context.WithValue(rctx, refreshCancelKey{}, endCtx)
				if t.Chance(1, 8, "refresh-context-done") {
					// The caller's context is over before the refresh begins
					// (a shutdown, an expired timeout): the upload cannot
					// succeed, and nothing may be lost.
					var cancel context.CancelFunc
					rctx, cancel = context.WithCancel(rctx)
					cancel()
					s.Fault("refresh-with-finished-context")
				}
				w.inFlight++
				if w.inFlight > 1 {
					w.overlapped = true
					s.Probe("refreshes-overlapped")
				}
				err := rec.Refresh(rctx)
				endCtx()
				w.inFlight--
				s.Logf("%s: refresh err=%v", name, err)
			}
		})
	}

	s.Run()
	if s.Failed() != nil || s.Stuck || s.Capped {
		if s.Stuck {
			s.Failf("C16/stuck", "recorder deadlocked", "tasks cannot make progress")
		}

		return
	}

	// Faults off: a final successful refresh must deliver everything held.
	w.failNext = func() bool { return false }
	s.Go("final", func() {
		rctx := context.WithValue(ctx, refreshCtxKey{}, w.tick())
		err := rec.Refresh(rctx)
		if err != nil {
			s.Failf("C16/final", "final refresh failed", "final refresh: %v", err)
		}
	})
	s.Run()
	if s.Failed() != nil {
		return
	}

	recorded := map[agd.DeviceID]int{}
	for _, c := range w.calls {
		if c.done {
			recorded[c.dev]++
		}
	}

	ids := make([]string, 0, len(recorded))
	for id := range recorded {
		ids = append(ids, string(id))
	}
	sort.Strings(ids)

	for _, id := range ids {
		d := w.delivered[agd.DeviceID(id)]
		n := recorded[agd.DeviceID(id)]
		if d != n {
			kind := "lost"
			if d > n {
				kind = "double-counted"
			}
			s.Failf("C16/conservation", "queries "+kind,
				"device %s: recorded %d queries, delivered %d after final flush", id, n, d)
		}
	}

	for id, d := range w.delivered {
		if recorded[id] == 0 && d != 0 {
			s.Failf("C16/conservation", "queries double-counted",
				"device %s: delivered %d queries, recorded none", id, d)
		}
	}
}

func TestWorker(t *testing.T) {
	kernel.WorkerMain(t, &kernel.Engine{Name: "billsim", Run: run})
}
