// Package kernel is the deterministic-simulation kernel shared by all engines:
// the choice tape, the scheduler, the worker main loop, the shrinker and the
// counters that end up in the evidence files.
package kernel

import (
	"hash/fnv"
	"math/rand/v2"
)

// Tape is the single source of every nondeterministic decision of a run.  In
// generation mode values come from a PCG stream; in replay mode from a
// recorded slice, with 0 ("the boring choice") once the slice is exhausted.
type Tape struct {
	rng    *rand.PCG
	replay []uint32
	pos    int
	isRep  bool
	rec    []uint32
	sig    uint64
	limit  int

	// CryptoSeed seeds crypto/rand for the run (testing/cryptotest); it is a
	// function of (seed, run index) only, so that a shrunk tape replays with
	// the same key material and therefore the same record sizes.
	CryptoSeed uint64
}

// CryptoSeedFor derives the crypto seed of run idx under seed.
func CryptoSeedFor(seed, idx uint64) (cs uint64) {
	return (seed+1)*0x9e3779b97f4a7c15 ^ (idx+1)*0xbf58476d1ce4e5b9
}

// NewTape returns a generating tape for (seed, idx).
func NewTape(seed uint64, idx uint64) (t *Tape) {
	return &Tape{
		rng:        rand.NewPCG(seed^0x9e3779b97f4a7c15, idx*0xbf58476d1ce4e5b9+1),
		sig:        14695981039346656037,
		limit:      200_000,
		CryptoSeed: CryptoSeedFor(seed, idx),
	}
}

// NewReplayTape returns a tape that replays vals.
func NewReplayTape(vals []uint32) (t *Tape) {
	return &Tape{
		replay: vals,
		isRep:  true,
		sig:    14695981039346656037,
		limit:  200_000,
	}
}

// Exhausted is panicked with when a run draws more values than the tape
// limit; the worker treats it as a capped (not failed) run.
type Exhausted struct{}

// Choose returns a value in [0, n).  0 is always the boring default.
func (t *Tape) Choose(n int, label string) (v int) {
	if n <= 1 {
		return 0
	}

	if len(t.rec) >= t.limit {
		panic(Exhausted{})
	}

	var raw uint32
	if t.isRep {
		if t.pos < len(t.replay) {
			raw = t.replay[t.pos] % uint32(n)
		}
		t.pos++
	} else {
		raw = uint32(t.rng.Uint64() % uint64(n))
	}

	t.rec = append(t.rec, raw)
	t.mix(label)
	t.mixInt(uint64(raw))

	return int(raw)
}

// Chance returns true with probability num/den; false is the boring default.
func (t *Tape) Chance(num, den int, label ...string) (ok bool) {
	if num <= 0 {
		return false
	}

	l := "chance"
	if len(label) > 0 {
		l = label[0]
	}

	v := t.Choose(den, l)

	return v >= den-num
}

// Range returns a value in [lo, hi]; lo is the boring default.
func (t *Tape) Range(lo, hi int, label string) (v int) {
	if hi <= lo {
		return lo
	}

	return lo + t.Choose(hi-lo+1, label)
}

// Pick returns one of vals; the first is the boring default.
func Pick[T any](t *Tape, vals []T, label string) (v T) {
	return vals[t.Choose(len(vals), label)]
}

// Recorded returns the values drawn so far.
func (t *Tape) Recorded() (vals []uint32) { return t.rec }

// Sig returns the signature of the decisions so far.
func (t *Tape) Sig() (s uint64) { return t.sig }

// Mix mixes an observation into the signature without drawing.
func (t *Tape) Mix(s string) { t.mix(s) }

func (t *Tape) mix(s string) {
	h := fnv.New64a()
	_, _ = h.Write([]byte(s))
	t.mixInt(h.Sum64())
}

func (t *Tape) mixInt(x uint64) {
	t.sig ^= x + 0x9e3779b97f4a7c15 + (t.sig << 6) + (t.sig >> 2)
	t.sig *= 1099511628211
}
