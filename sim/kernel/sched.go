package kernel

import (
	"fmt"
	"hash/fnv"
	"maps"
	"net"
	"runtime"
	"slices"
	"sort"
	"strconv"
	"sync"
	"testing/synctest"
	"time"

	"github.com/AdguardTeam/AdGuardDNS/verif/verifsim"
)

// Violation is a property violation observed by an oracle.
type Violation struct {
	// Class identifies the oracle (property id + oracle id); shrinking keeps
	// a candidate only when the same class recurs.
	Class string `json:"class"`

	// Witness is a normalised, seed-independent description of what failed,
	// used to match known findings.
	Witness string `json:"witness"`

	// Msg is the human-readable detail.
	Msg string `json:"msg"`
}

// Sim is one simulated run.
type Sim struct {
	// T is the choice tape of the run.
	T *Tape

	// Invariant, if set, is evaluated by the scheduler after every step while
	// all goroutines are parked.
	Invariant func()

	// SwitchDen is the denominator of the probability of preempting the
	// current task at a yield (PCT-style bias).  0 means 4.
	SwitchDen int

	// MaxSteps caps scheduler steps.  0 means 20000.
	MaxSteps int

	// QuietOK makes Run return, with Quiet set, as soon as nothing is enabled
	// and one idle period has passed without any task becoming runnable.
	QuietOK bool

	// Quiet is set when Run returned because of QuietOK.
	Quiet bool

	// IdleQuantum is how long the scheduler waits for a task to become
	// runnable before counting an idle period.  0 means one hour.
	IdleQuantum time.Duration

	// DeferBackground lets the scheduler, when only goroutines that are not
	// named tasks ("anon": goroutines the code under test spawned itself)
	// are runnable and some named task is asleep on a timer, leave them
	// parked and let simulated time pass instead (a tape decision).
	DeferBackground bool

	// Dial, if set, serves verifsim.DialTimeout.
	Dial func(network, addr string, timeout time.Duration) (net.Conn, error)

	mu      sync.Mutex
	parked  []*waiter
	events  []*event
	names   map[int64]string
	live    int
	wake    chan struct{}
	cur     int64
	epoch   uint64
	seq     uint64
	stopped bool

	// Steps is the number of scheduler decisions taken.
	Steps int

	// Switches is the number of decisions that preempted the running task
	// although it could have continued.
	Switches int

	// Contended is the number of decisions with at least two candidates.
	Contended int

	// Stuck is set when the run ended because nothing could make progress.
	Stuck bool

	// Capped is set when the run hit its step cap.
	Capped bool

	start   time.Time
	elapsed time.Duration

	trace    []string
	traceSig uint64
	fail     *Violation

	// Known is the set of "class|witness" keys of listed known findings.
	Known     map[string]bool
	knownHits map[string]*Violation
	faults    map[string]int
	probes    map[string]int
	nontriv   bool
}

type waiter struct {
	goid    int64
	name    string
	site    string
	ch      chan struct{}
	blocked bool
	epoch   uint64
	seq     uint64
	cond    *sync.Cond
	condW   bool
}

type event struct {
	name string
	seq  uint64
	fire func()
}

// NewSim creates a run on tape t.
func NewSim(t *Tape) (s *Sim) {
	return &Sim{
		T:        t,
		names:    map[int64]string{},
		wake:     make(chan struct{}, 1),
		faults:   map[string]int{},
		probes:   map[string]int{},
		traceSig: 14695981039346656037,
		start:    time.Now(),
	}
}

func goid() (id int64) {
	var buf [64]byte
	n := runtime.Stack(buf[:], false)
	// "goroutine 123 ["
	b := buf[10:n]
	for i, c := range b {
		if c == ' ' {
			id, _ = strconv.ParseInt(string(b[:i]), 10, 64)

			return id
		}
	}

	return 0
}

// Logf appends a line to the run's trace.  It never draws from the tape and
// never reads a real clock.
func (s *Sim) Logf(format string, args ...any) {
	line := fmt.Sprintf(format, args...)

	s.mu.Lock()
	defer s.mu.Unlock()
	s.logLocked(line)
}

func (s *Sim) logLocked(line string) {
	h := fnv.New64a()
	_, _ = h.Write([]byte(line))
	s.traceSig = (s.traceSig ^ h.Sum64()) * 1099511628211
	if len(s.trace) < 4000 {
		s.trace = append(s.trace, line)
	}
}

// Trace returns the trace lines.
func (s *Sim) Trace() (lines []string) { return s.trace }

// TraceSig returns a hash of the complete trace.
func (s *Sim) TraceSig() (sig uint64) { return s.traceSig }

// Fault counts an injected fault that actually fired.
func (s *Sim) Fault(kind string) {
	s.mu.Lock()
	defer s.mu.Unlock()

	s.faults[kind]++
	s.nontriv = true
}

// Probe counts a rare condition that was reached.
func (s *Sim) Probe(name string) {
	s.mu.Lock()
	defer s.mu.Unlock()

	s.probes[name]++
}

// MarkNontrivial marks the run as non-trivial by the engine's rule.
func (s *Sim) MarkNontrivial() {
	s.mu.Lock()
	defer s.mu.Unlock()

	s.nontriv = true
}

// Failf records a violation; the first one wins.
func (s *Sim) Failf(class, witness, format string, args ...any) {
	msg := fmt.Sprintf(format, args...)

	if s.NoteKnown(class, witness, msg) {
		return
	}

	s.mu.Lock()
	if s.fail == nil {
		s.fail = &Violation{Class: class, Witness: witness, Msg: msg}
	}
	s.mu.Unlock()

	s.Logf("VIOLATION %s [%s]: %s", class, witness, msg)
}

// NoteKnown reports whether class|witness is a listed known finding; if so,
// the occurrence is recorded (first of each per run) and the run is not
// failed, so that the rest of the run is still judged.
func (s *Sim) NoteKnown(class, witness, msg string) (known bool) {
	key := class + "|" + witness
	s.mu.Lock()
	defer s.mu.Unlock()
	if !s.Known[key] {
		return false
	}
	if s.knownHits == nil {
		s.knownHits = map[string]*Violation{}
	}
	if s.knownHits[key] == nil {
		s.knownHits[key] = &Violation{Class: class, Witness: witness, Msg: msg}
		s.logLocked("KNOWN-FINDING " + class + " [" + witness + "]: " + msg)
	}

	return true
}

// KnownHits returns the known findings that occurred in this run.
func (s *Sim) KnownHits() (hits []*Violation) {
	s.mu.Lock()
	defer s.mu.Unlock()
	for _, k := range slices.Sorted(maps.Keys(s.knownHits)) {
		hits = append(hits, s.knownHits[k])
	}

	return hits
}

// Failed returns the recorded violation, if any.
func (s *Sim) Failed() (v *Violation) {
	s.mu.Lock()
	defer s.mu.Unlock()

	return s.fail
}

// Elapsed returns the simulated time since the run began.
func (s *Sim) Elapsed() (d time.Duration) { return time.Since(s.start) }

func (s *Sim) poke() {
	select {
	case s.wake <- struct{}{}:
	default:
	}
}

// Go starts a named task.  It begins parked at site "start".
func (s *Sim) Go(name string, f func()) {
	s.mu.Lock()
	s.live++
	s.mu.Unlock()

	go func() {
		id := goid()
		s.mu.Lock()
		s.names[id] = name
		s.mu.Unlock()

		defer func() {
			if r := recover(); r != nil {
				if _, ok := r.(Exhausted); !ok {
					buf := make([]byte, 4096)
					buf = buf[:runtime.Stack(buf, false)]
					s.Failf("panic", "panic in task "+name, "%v\n%s", r, buf)
				}
			}

			s.mu.Lock()
			s.live--
			delete(s.names, id)
			s.mu.Unlock()
			s.poke()
		}()

		s.Yield("start")
		f()
	}()
}

// Yield parks the calling goroutine until the scheduler resumes it.
func (s *Sim) Yield(site string) { s.park(site, false, nil) }

func (s *Sim) park(site string, blocked bool, c *sync.Cond) {
	id := goid()

	s.mu.Lock()
	if s.stopped {
		s.mu.Unlock()
		runtime.Gosched()

		return
	}

	name, ok := s.names[id]
	if !ok {
		name = "anon"
	}

	s.seq++
	w := &waiter{
		goid:    id,
		name:    name,
		site:    site,
		ch:      make(chan struct{}),
		blocked: blocked,
		epoch:   s.epoch,
		seq:     s.seq,
		cond:    c,
		condW:   c != nil,
	}
	s.parked = append(s.parked, w)
	s.mu.Unlock()

	if c != nil {
		c.L.Unlock()
	}

	s.poke()
	<-w.ch
}

func (s *Sim) condWait(c *sync.Cond, site string) {
	s.park(site, false, c)

	tl, ok := c.L.(interface{ TryLock() bool })
	if !ok {
		c.L.Lock()

		return
	}

	for !tl.TryLock() {
		s.park(site, true, nil)
	}
}

func (s *Sim) condSignal(c *sync.Cond, site string) {
	s.mu.Lock()
	var ws []*waiter
	for _, w := range s.parked {
		if w.cond == c && w.condW {
			ws = append(ws, w)
		}
	}
	s.mu.Unlock()

	if len(ws) == 0 {
		return
	}

	sort.Slice(ws, func(i, j int) bool { return ws[i].seq < ws[j].seq })
	i := s.T.Choose(len(ws), "cond-signal "+site)

	s.mu.Lock()
	ws[i].condW = false
	ws[i].epoch = s.epoch
	s.mu.Unlock()
}

func (s *Sim) condBroadcast(c *sync.Cond, _ string) {
	s.mu.Lock()
	defer s.mu.Unlock()

	for _, w := range s.parked {
		if w.cond == c && w.condW {
			w.condW = false
		}
	}
}

// Post adds an enabled event; fire runs on the scheduler goroutine when the
// event is chosen.
func (s *Sim) Post(name string, fire func()) {
	s.mu.Lock()
	s.seq++
	s.events = append(s.events, &event{name: name, seq: s.seq, fire: fire})
	s.mu.Unlock()
	s.poke()
}

// Install installs the simulator's hooks into the verifsim seam.
func (s *Sim) Install() {
	verifsim.Install(&verifsim.Hooks{
		Yield:         func(site string) { s.park(site, false, nil) },
		Blocked:       func(site string) { s.park(site, true, nil) },
		CondWait:      s.condWait,
		CondSignal:    s.condSignal,
		CondBroadcast: s.condBroadcast,
		Dial: func(network, addr string, timeout time.Duration) (net.Conn, error) {
			if s.Dial == nil {
				return nil, fmt.Errorf("verifsim: no dialer for %s %s", network, addr)
			}

			return s.Dial(network, addr, timeout)
		},
	})
}

// Uninstall removes the hooks and lets parked goroutines run freely.
func (s *Sim) Uninstall() {
	verifsim.Install(nil)
}

// Unhooked runs f on the calling goroutine with the verifsim hooks removed, so
// that instrumented code called by f runs straight through.  It may only be
// called from the scheduler goroutine (Invariant, or between Run calls), when
// every other goroutine is parked.
func (s *Sim) Unhooked(f func()) {
	verifsim.Install(nil)
	defer s.Install()

	f()
}

// ParkedSites returns the sites at which goroutines are currently parked.
func (s *Sim) ParkedSites() (sites []string) {
	s.mu.Lock()
	defer s.mu.Unlock()

	for _, w := range s.parked {
		sites = append(sites, w.site)
	}

	return sites
}

// Parked returns (task name, site) of every parked goroutine.
func (s *Sim) Parked() (out [][2]string) {
	s.mu.Lock()
	defer s.mu.Unlock()

	for _, w := range s.parked {
		out = append(out, [2]string{w.name, w.site})
	}

	return out
}

// Stop makes every future yield a no-op and releases all parked goroutines.
func (s *Sim) Stop() {
	s.mu.Lock()
	s.stopped = true
	ws := s.parked
	s.parked = nil
	s.mu.Unlock()

	for _, w := range ws {
		close(w.ch)
	}
}

func (s *Sim) enabledLocked() (ws []*waiter, evs []*event) {
	for _, w := range s.parked {
		if w.condW {
			continue
		}

		if w.blocked && w.epoch >= s.epoch {
			continue
		}

		ws = append(ws, w)
	}

	sort.SliceStable(ws, func(i, j int) bool {
		a, b := ws[i], ws[j]
		if (a.goid == s.cur) != (b.goid == s.cur) {
			return a.goid == s.cur && !a.blocked
		}

		if a.name != b.name {
			return a.name < b.name
		}

		if a.site != b.site {
			return a.site < b.site
		}

		return a.seq < b.seq
	})

	evs = append(evs, s.events...)
	sort.SliceStable(evs, func(i, j int) bool {
		if evs[i].name != evs[j].name {
			return evs[i].name < evs[j].name
		}

		return evs[i].seq < evs[j].seq
	})

	return ws, evs
}

// onlyBackground reports whether every runnable waiter is an anonymous
// goroutine while some named task is neither parked nor finished (so it will
// wake up by itself).
func (s *Sim) onlyBackground(ws []*waiter, live int) (ok bool) {
	for _, w := range ws {
		if w.name != "anon" {
			return false
		}
	}

	s.mu.Lock()
	defer s.mu.Unlock()

	named := 0
	for _, w := range s.parked {
		if w.name != "anon" {
			named++
		}
	}

	return live-named > 0
}

// Run is the scheduler loop.  It must be called on the bubble's root
// goroutine.  It returns when every named task has finished and nothing is
// parked or posted, when nothing can make progress (Stuck), when the step
// cap is reached (Capped), or when a violation has been recorded.
func (s *Sim) Run() {
	maxSteps := s.MaxSteps
	if maxSteps == 0 {
		maxSteps = 20000
	}

	// How readily the running task is preempted is a knob of the run, drawn
	// once: frequent switching finds races between short sections, rare
	// switching lets one task run through a long section while another
	// stays parked in the middle of its own.
	if s.SwitchDen == 0 {
		s.SwitchDen = Pick(s.T, []int{2, 3, 4, 4, 8, 16}, "switch-den")
	}
	switchDen := s.SwitchDen

	idle := 0
	s.Quiet = false
	s.Stuck = false
	for {
		synctest.Wait()

		select {
		case <-s.wake:
		default:
		}

		if s.Invariant != nil {
			s.Invariant()
		}

		if s.Failed() != nil {
			return
		}

		s.mu.Lock()
		ws, evs := s.enabledLocked()
		nParked := len(s.parked)
		live := s.live
		s.mu.Unlock()

		k := len(ws) + len(evs)
		if s.DeferBackground && k > 0 && len(evs) == 0 && s.onlyBackground(ws, live) &&
			s.T.Chance(1, 2, "defer-background") {
			q := s.IdleQuantum
			if q == 0 {
				q = time.Hour
			}
			tm := time.NewTimer(q)
			select {
			case <-s.wake:
			case <-tm.C:
			}
			tm.Stop()

			s.mu.Lock()
			s.epoch++
			s.nontriv = true
			s.mu.Unlock()

			continue
		}

		if k == 0 {
			if live == 0 && nParked == 0 {
				return
			}

			if s.QuietOK && idle >= 1 {
				s.Quiet = true

				return
			}

			if idle >= 3 {
				s.Stuck = true
				s.Logf("sched: stuck live=%d parked=%d", live, nParked)

				return
			}

			q := s.IdleQuantum
			if q == 0 {
				q = time.Hour
			}
			tm := time.NewTimer(q)
			select {
			case <-s.wake:
				idle = 0
			case <-tm.C:
				idle++
			}
			tm.Stop()

			s.mu.Lock()
			s.epoch++
			s.mu.Unlock()

			continue
		}

		idle = 0
		if s.Steps >= maxSteps {
			s.Capped = true
			s.Logf("sched: step cap")

			return
		}
		s.Steps++

		i := 0
		if k > 1 {
			s.Contended++
			curFirst := len(ws) > 0 && ws[0].goid == s.cur && !ws[0].blocked
			if curFirst {
				if s.T.Chance(1, switchDen, "switch") {
					i = 1 + s.T.Choose(k-1, "pick")
					s.Switches++
					s.mu.Lock()
					s.nontriv = true
					s.mu.Unlock()
				}
			} else {
				i = s.T.Choose(k, "pick")
			}
		}

		if i < len(ws) {
			w := ws[i]
			s.T.Mix(w.name + "@" + w.site)
			if k > 1 {
				s.Logf("sched: run %s@%s (%d enabled)", w.name, w.site, k)
			}

			s.mu.Lock()
			for j, p := range s.parked {
				if p == w {
					s.parked = append(s.parked[:j], s.parked[j+1:]...)

					break
				}
			}
			if !w.blocked {
				s.epoch++
			}
			s.cur = w.goid
			s.mu.Unlock()

			close(w.ch)
		} else {
			e := evs[i-len(ws)]
			s.T.Mix("ev:" + e.name)
			if k > 1 {
				s.Logf("sched: fire %s (%d enabled)", e.name, k)
			}

			s.mu.Lock()
			for j, p := range s.events {
				if p == e {
					s.events = append(s.events[:j], s.events[j+1:]...)

					break
				}
			}
			s.epoch++
			s.cur = 0
			s.mu.Unlock()

			e.fire()
		}
	}
}
