package kernel

import (
	"encoding/json"
	"fmt"
	mathrand "math/rand"
	"os"
	"runtime"
	"runtime/debug"
	"sort"
	"strconv"
	"strings"
	"testing"
	"testing/cryptotest"
	"testing/synctest"
	"time"
)

// Engine is a simulated world.
type Engine struct {
	// Name is the engine name.
	Name string

	// PinCrypto makes crypto/rand a deterministic function of the run.
	PinCrypto bool

	// Run executes one run for property prop on sim s inside the bubble.  cfg
	// is a free-form configuration string (sub-batch selector).
	Run func(s *Sim, prop, cfg string)

	// IsolatePools, if set and true for prop, makes what sync.Pool hands out
	// a function of the run: the pools are emptied before the run (two
	// collections) and the collector is off while it lasts.  For engines
	// whose outcome depends on which recycled object a pool returns.
	IsolatePools func(prop string) (ok bool)
}

// RunReport is what one run produced.
type RunReport struct {
	Idx       uint64     `json:"idx"`
	Tape      []uint32   `json:"tape"`
	Violation *Violation `json:"violation,omitempty"`
	Trace     []string   `json:"trace,omitempty"`
	TraceSig  string     `json:"trace_sig"`
	Sig       string     `json:"sig"`
}

// WorkerOut is the JSON a worker process writes.
type WorkerOut struct {
	Engine     string         `json:"engine"`
	Prop       string         `json:"prop"`
	Cfg        string         `json:"cfg"`
	Mode       string         `json:"mode"`
	Seed       uint64         `json:"seed"`
	Runs       int            `json:"runs"`
	Steps      int            `json:"steps"`
	Switches   int            `json:"switches"`
	Contended  int            `json:"contended"`
	Stuck      int            `json:"stuck"`
	Capped     int            `json:"capped"`
	SimNS      int64          `json:"sim_ns"`
	WallMS     int64          `json:"wall_ms"`
	Faults     map[string]int `json:"faults"`
	Probes     map[string]int `json:"probes"`
	Nontrivial []string       `json:"nontrivial_sigs"`
	NontrivN   int            `json:"nontrivial_runs"`
	Samples    []RunReport    `json:"samples,omitempty"`
	Failure    *RunReport     `json:"failure,omitempty"`
	Known      []RunReport    `json:"known,omitempty"`
	Hashes     []string       `json:"hashes,omitempty"`
	ShrunkFrom int            `json:"shrunk_from,omitempty"`
	Replays    int            `json:"shrink_replays,omitempty"`
}

func envU(name string, def uint64) (v uint64) {
	s := os.Getenv(name)
	if s == "" {
		return def
	}

	v, err := strconv.ParseUint(s, 10, 64)
	if err != nil {
		panic(fmt.Errorf("bad %s: %w", name, err))
	}

	return v
}

// runOne executes one run in a fresh bubble.
func runOne(t *testing.T, e *Engine, prop, cfg string, tape *Tape) (s *Sim) {
	s = NewSim(tape)
	s.Known = map[string]bool{}
	for _, k := range strings.Split(os.Getenv("VERIF_KNOWN"), "\n") {
		if k != "" {
			s.Known[k] = true
		}
	}

	defer func() {
		if r := recover(); r != nil {
			msg := fmt.Sprint(r)
			if strings.Contains(msg, "blocked goroutines remain") {
				s.Probe("leaked-goroutines-at-exit")

				return
			}

			s.Failf("harness-panic", "panic outside tasks", "%v", r)
		}
	}()

	if e.IsolatePools != nil && e.IsolatePools(prop) {
		runtime.GC()
		runtime.GC()
		old := debug.SetGCPercent(-1)
		defer debug.SetGCPercent(old)
	}

	if e.PinCrypto {
		cryptotest.SetGlobalRandom(t, tape.CryptoSeed)

		// The global math/rand source too (response padding lengths); needs
		// `//go:debug randseednop=0` in the engine's test package.
		mathrand.Seed(int64(tape.CryptoSeed >> 1)) //nolint:staticcheck
	}

	synctest.Test(t, func(_ *testing.T) {
		s.start = time.Now()
		s.wake = make(chan struct{}, 1) // must be created inside the bubble to block durably
		s.Install()
		defer s.Uninstall()
		defer func() { s.elapsed = time.Since(s.start) }()
		defer func() {
			if r := recover(); r != nil {
				if _, ok := r.(Exhausted); ok {
					s.Capped = true

					return
				}

				buf := make([]byte, 8192)
				buf = buf[:runtime.Stack(buf, false)]
				s.Failf("panic", "panic in root", "%v\n%s", r, buf)
			}
		}()

		e.Run(s, prop, cfg)
	})

	return s
}

func report(idx uint64, s *Sim, withTrace bool) (r RunReport) {
	r = RunReport{
		Idx:       idx,
		Tape:      append([]uint32{}, s.T.Recorded()...),
		Violation: s.Failed(),
		TraceSig:  fmt.Sprintf("%016x", s.TraceSig()),
		Sig:       fmt.Sprintf("%016x", s.T.Sig()),
	}
	for len(r.Tape) > 0 && r.Tape[len(r.Tape)-1] == 0 {
		r.Tape = r.Tape[:len(r.Tape)-1]
	}

	if withTrace {
		r.Trace = s.Trace()
	}

	return r
}

var keepAlive []any

// KeepAlive keeps x reachable for the life of the worker process.  Engines
// use it for objects whose finalizers touch bubble channels (go-cache stops
// its janitor from a finalizer, which is fatal from outside the bubble).
func KeepAlive(x any) { keepAlive = append(keepAlive, x) }

// TapeFile is the replay file format.
type TapeFile struct {
	Property  string     `json:"property"`
	Engine    string     `json:"engine"`
	Cfg       string     `json:"cfg"`
	Seed      uint64     `json:"seed"`
	Idx       uint64     `json:"idx"`
	Tape      []uint32   `json:"tape"`
	Violation *Violation `json:"violation,omitempty"`
	Trace     []string   `json:"trace,omitempty"`
}

// WorkerMain is the entry point of every engine's test binary.
func WorkerMain(t *testing.T, e *Engine) {
	mode := os.Getenv("VERIF_MODE")
	if mode == "" {
		t.Skip("VERIF_MODE not set; run through /verif/check")
	}

	debug.SetGCPercent(400)

	prop := os.Getenv("VERIF_PROP")
	cfg := os.Getenv("VERIF_CFG")
	seed := envU("VERIF_SEED", 1)
	first := envU("VERIF_FIRST", 0)
	stride := envU("VERIF_STRIDE", 1)
	count := envU("VERIF_COUNT", 100)
	budget := time.Duration(envU("VERIF_BUDGET_MS", 0)) * time.Millisecond
	outPath := os.Getenv("VERIF_OUT")

	out := &WorkerOut{
		Engine: e.Name,
		Prop:   prop,
		Cfg:    cfg,
		Mode:   mode,
		Seed:   seed,
		Faults: map[string]int{},
		Probes: map[string]int{},
	}

	wallStart := time.Now()
	nontriv := map[string]struct{}{}

	// VERIF_KNOWN lists "class|witness" pairs of known findings: a run that
	// fails with one of them is recorded (first of each) and exploration
	// goes on, so that a known finding cannot mask a different violation.
	known := map[string]bool{}
	for _, k := range strings.Split(os.Getenv("VERIF_KNOWN"), "\n") {
		if k != "" {
			known[k] = true
		}
	}
	seenKnown := map[string]bool{}

	account := func(s *Sim) {
		out.Runs++
		out.Steps += s.Steps
		out.Switches += s.Switches
		out.Contended += s.Contended
		if s.Stuck {
			out.Stuck++
		}
		if s.Capped {
			out.Capped++
		}
		out.SimNS += int64(s.elapsed)
		for k, v := range s.faults {
			out.Faults[k] += v
		}
		for k, v := range s.probes {
			out.Probes[k] += v
		}
		if s.nontriv {
			out.NontrivN++
			if len(nontriv) < 300_000 {
				nontriv[fmt.Sprintf("%016x", s.T.Sig())] = struct{}{}
			}
		}
	}

	switch mode {
	case "explore", "hash":
		for i := uint64(0); i < count; i++ {
			if budget > 0 && time.Since(wallStart) > budget {
				break
			}

			idx := first + i*stride
			if outPath != "" && mode == "explore" {
				_ = os.WriteFile(outPath+".progress", []byte(strconv.FormatUint(idx, 10)), 0o644)
			}

			s := runOne(t, e, prop, cfg, NewTape(seed, idx))
			account(s)

			if mode == "hash" {
				out.Hashes = append(out.Hashes, fmt.Sprintf("%d:%016x:%016x", idx, s.T.Sig(), s.TraceSig()))
			}

			if len(out.Samples) < 2 && s.nontriv && s.Failed() == nil {
				r := report(idx, s, true)
				if len(r.Trace) > 60 {
					r.Trace = append(r.Trace[:60:60], "...")
				}
				r.Tape = nil
				out.Samples = append(out.Samples, r)
			}

			for _, kv := range s.KnownHits() {
				key := kv.Class + "|" + kv.Witness
				if !seenKnown[key] {
					seenKnown[key] = true
					r := report(idx, s, true)
					r.Violation = kv
					out.Known = append(out.Known, r)
				}
			}

			if v := s.Failed(); v != nil {
				key := v.Class + "|" + v.Witness
				if known[key] {
					if !seenKnown[key] {
						seenKnown[key] = true
						out.Known = append(out.Known, report(idx, s, true))
					}
				} else {
					r := report(idx, s, true)
					out.Failure = &r

					break
				}
			}

			if out.Runs%64 == 0 {
				runtime.GC()
			}
		}
	case "replay":
		tf := readTapeFile(t)
		rt := NewReplayTape(tf.Tape)
		rt.CryptoSeed = CryptoSeedFor(tf.Seed, tf.Idx)
		s := runOne(t, e, prop, cfg, rt)
		account(s)
		r := report(tf.Idx, s, true)
		for _, kv := range s.KnownHits() {
			kr := r
			kr.Violation = kv
			kr.Trace = nil
			out.Known = append(out.Known, kr)
		}
		if s.Failed() != nil {
			out.Failure = &r
		} else {
			out.Samples = append(out.Samples, r)
		}
	case "shrink":
		tf := readTapeFile(t)
		if tf.Violation == nil {
			t.Fatal("shrink: tape file has no violation")
		}

		cs := CryptoSeedFor(tf.Seed, tf.Idx)
		best, replays := shrink(t, e, prop, cfg, tf.Tape, tf.Violation.Class, budget, cs)
		bt := NewReplayTape(best)
		bt.CryptoSeed = cs
		s := runOne(t, e, prop, cfg, bt)
		account(s)
		out.ShrunkFrom = len(tf.Tape)
		out.Replays = replays
		r := report(tf.Idx, s, true)
		if s.Failed() != nil {
			out.Failure = &r
		}
	default:
		t.Fatalf("bad VERIF_MODE %q", mode)
	}

	for k := range nontriv {
		out.Nontrivial = append(out.Nontrivial, k)
	}
	sort.Strings(out.Nontrivial)
	out.WallMS = time.Since(wallStart).Milliseconds()

	b, err := json.Marshal(out)
	if err != nil {
		t.Fatal(err)
	}

	if outPath == "" {
		fmt.Println(string(b))

		return
	}

	err = os.WriteFile(outPath, b, 0o644)
	if err != nil {
		t.Fatal(err)
	}
}

func readTapeFile(t *testing.T) (tf *TapeFile) {
	b, err := os.ReadFile(os.Getenv("VERIF_TAPE"))
	if err != nil {
		t.Fatal(err)
	}

	tf = &TapeFile{}
	err = json.Unmarshal(b, tf)
	if err != nil {
		t.Fatal(err)
	}

	return tf
}

// shrink minimises tape while a violation of class recurs.
func shrink(
	t *testing.T,
	e *Engine,
	prop, cfg string,
	tape []uint32,
	class string,
	budget time.Duration,
	cryptoSeed uint64,
) (best []uint32, replays int) {
	if budget == 0 {
		budget = 60 * time.Second
	}

	start := time.Now()
	const maxReplays = 3000

	try := func(cand []uint32) (ok bool, used []uint32) {
		if replays >= maxReplays || time.Since(start) > budget {
			return false, nil
		}

		replays++
		ct := NewReplayTape(cand)
		ct.CryptoSeed = cryptoSeed
		s := runOne(t, e, prop, cfg, ct)
		v := s.Failed()
		if v == nil || v.Class != class {
			return false, nil
		}

		// Keep only what the run consumed, trailing zeros removed.
		used = append([]uint32{}, s.T.Recorded()...)
		if len(used) > len(cand) {
			used = used[:len(cand)]
		}
		for len(used) > 0 && used[len(used)-1] == 0 {
			used = used[:len(used)-1]
		}

		return true, used
	}

	best = append([]uint32{}, tape...)
	if ok, used := try(best); ok {
		best = used
	} else {
		return best, replays
	}

	improved := true
	for improved {
		improved = false

		// 1. truncate.
		for n := len(best) / 2; n >= 1 && len(best) > 0; n /= 2 {
			cand := append([]uint32{}, best[:len(best)-n]...)
			if ok, used := try(cand); ok {
				best = used
				improved = true
			}
		}

		// 2. delete chunks and zero chunks.
		for size := len(best) / 2; size >= 1; size /= 2 {
			for i := 0; i+size <= len(best); {
				cand := append(append([]uint32{}, best[:i]...), best[i+size:]...)
				if ok, used := try(cand); ok && len(used) < len(best) {
					best = used
					improved = true

					continue
				}

				allZero := true
				for _, v := range best[i : i+size] {
					if v != 0 {
						allZero = false

						break
					}
				}

				if !allZero {
					cand = append([]uint32{}, best...)
					for j := i; j < i+size; j++ {
						cand[j] = 0
					}
					if ok, used := try(cand); ok {
						best = used
						improved = true
						if i+size > len(best) {
							break
						}
					}
				}

				i += size
			}
		}

		// 3. reduce single values.
		for i := 0; i < len(best); i++ {
			for best[i] > 0 {
				cand := append([]uint32{}, best...)
				if cand[i] > 1 {
					cand[i] /= 2
				} else {
					cand[i] = 0
				}
				ok, used := try(cand)
				if !ok || len(used) <= i {
					if ok {
						best = used
						improved = true
					}

					break
				}

				best = used
				improved = true
			}

			if i >= len(best) {
				break
			}
		}

		if replays >= maxReplays || time.Since(start) > budget {
			break
		}
	}

	return best, replays
}
