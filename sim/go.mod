module github.com/AdguardTeam/AdGuardDNS/verif

go 1.26.8

require (
	github.com/AdguardTeam/AdGuardDNS v0.0.0
	github.com/AdguardTeam/AdGuardDNS/internal/dnsserver v0.0.0
	github.com/AdguardTeam/golibs v0.30.4
	github.com/ameshkov/dnscrypt/v2 v2.3.0
	github.com/anishathalye/porcupine v1.3.0
	github.com/c2h5oh/datasize v0.0.0-20231215233829-aa82cc1e6500
	github.com/miekg/dns v1.1.62
	github.com/oschwald/maxminddb-golang v1.13.1
	github.com/quic-go/quic-go v0.48.2
	golang.org/x/crypto v0.30.0
	golang.org/x/net v0.32.0
)

require (
	github.com/AdguardTeam/urlfilter v0.20.0 // indirect
	github.com/aead/chacha20 v0.0.0-20180709150244-8b13a72661da // indirect
	github.com/aead/poly1305 v0.0.0-20180717145839-3fee0db0b635 // indirect
	github.com/ameshkov/dnsstamps v1.0.3 // indirect
	github.com/axiomhq/hyperloglog v0.2.0 // indirect
	github.com/beorn7/perks v1.0.1 // indirect
	github.com/bluele/gcache v0.0.2 // indirect
	github.com/cespare/xxhash/v2 v2.3.0 // indirect
	github.com/davecgh/go-spew v1.1.1 // indirect
	github.com/dgryski/go-metro v0.0.0-20211217172704-adc40b04c140 // indirect
	github.com/getsentry/sentry-go v0.29.1 // indirect
	github.com/google/renameio/v2 v2.0.0 // indirect
	github.com/munnerz/goautoneg v0.0.0-20191010083416-a7dc8b61c822 // indirect
	github.com/panjf2000/ants/v2 v2.10.0 // indirect
	github.com/patrickmn/go-cache v2.1.1-0.20191004192108-46f407853014+incompatible // indirect
	github.com/pmezard/go-difflib v1.0.0 // indirect
	github.com/prometheus/client_golang v1.20.5 // indirect
	github.com/prometheus/client_model v0.6.1 // indirect
	github.com/prometheus/common v0.60.1 // indirect
	github.com/prometheus/procfs v0.15.1 // indirect
	github.com/quic-go/qpack v0.5.1 // indirect
	github.com/stretchr/testify v1.9.0 // indirect
	golang.org/x/exp v0.0.0-20241204233417-43b7b7cde48d // indirect
	golang.org/x/sync v0.10.0 // indirect
	golang.org/x/sys v0.28.0 // indirect
	golang.org/x/text v0.21.0 // indirect
	golang.org/x/time v0.8.0 // indirect
	google.golang.org/protobuf v1.35.1 // indirect
	gopkg.in/yaml.v3 v3.0.1 // indirect
)

replace github.com/AdguardTeam/AdGuardDNS => /repo

replace github.com/AdguardTeam/AdGuardDNS/internal/dnsserver => /repo/internal/dnsserver
