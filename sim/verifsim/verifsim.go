// Package verifsim is the seam that instrumented copies of repository packages
// call into.  The instrumenter (/verif/tools/instrument) rewrites selected
// packages of /repo's working tree into a scratch directory (never /repo
// itself) and the rewritten code calls the functions below.  When no
// simulator is installed every function falls through to the original
// operation, so an instrumented binary also runs un-simulated.
package verifsim

import (
	"context"
	"net"
	"sync"
	"sync/atomic"
	"time"
)

// Hooks is the set of callbacks a simulator installs.
type Hooks struct {
	// Yield parks the calling goroutine at site until the scheduler resumes
	// it.
	Yield func(site string)

	// Blocked parks the calling goroutine after a failed TryLock at site.
	Blocked func(site string)

	// CondWait, CondSignal and CondBroadcast simulate a sync.Cond.
	CondWait      func(c *sync.Cond, site string)
	CondSignal    func(c *sync.Cond, site string)
	CondBroadcast func(c *sync.Cond, site string)

	// Dial replaces net.DialTimeout.
	Dial func(network, addr string, timeout time.Duration) (net.Conn, error)
}

var hooks atomic.Pointer[Hooks]

// Install installs h; nil uninstalls.
func Install(h *Hooks) { hooks.Store(h) }

// Active reports whether a simulator is installed.
func Active() bool { return hooks.Load() != nil }

// Yield is a scheduling point.
func Yield(site string) {
	if h := hooks.Load(); h != nil && h.Yield != nil {
		h.Yield(site)
	}
}

// Blocked is called in the retry loop of a cooperative lock acquisition.
func Blocked(site string) {
	if h := hooks.Load(); h != nil && h.Blocked != nil {
		h.Blocked(site)
	}
}

// Locker is what sync.Mutex and sync.RWMutex offer.
type Locker interface {
	Lock()
	TryLock() bool
}

// RLocker is the read side of sync.RWMutex.
type RLocker interface {
	RLock()
	TryRLock() bool
}

// Lock acquires m cooperatively under a simulator, plainly otherwise.
func Lock(m Locker, site string) {
	h := hooks.Load()
	if h == nil || h.Yield == nil {
		m.Lock()

		return
	}

	h.Yield(site)
	for !m.TryLock() {
		h.Blocked(site)
	}
}

// LockLocker acquires a sync.Locker (e.g. the L of a sync.Cond)
// cooperatively when it offers TryLock.
func LockLocker(l sync.Locker, site string) {
	h := hooks.Load()
	tl, ok := l.(interface{ TryLock() bool })
	if h == nil || h.Yield == nil || !ok {
		l.Lock()

		return
	}

	h.Yield(site)
	for !tl.TryLock() {
		h.Blocked(site)
	}
}

// RLock acquires the read side of m cooperatively under a simulator.
func RLock(m RLocker, site string) {
	h := hooks.Load()
	if h == nil || h.Yield == nil {
		m.RLock()

		return
	}

	h.Yield(site)
	for !m.TryRLock() {
		h.Blocked(site)
	}
}

// CondWait replaces c.Wait().
func CondWait(c *sync.Cond, site string) {
	if h := hooks.Load(); h != nil && h.CondWait != nil {
		h.CondWait(c, site)

		return
	}

	c.Wait()
}

// CondSignal replaces c.Signal().
func CondSignal(c *sync.Cond, site string) {
	if h := hooks.Load(); h != nil && h.CondSignal != nil {
		h.CondSignal(c, site)

		return
	}

	c.Signal()
}

// CondBroadcast replaces c.Broadcast().
func CondBroadcast(c *sync.Cond, site string) {
	if h := hooks.Load(); h != nil && h.CondBroadcast != nil {
		h.CondBroadcast(c, site)

		return
	}

	c.Broadcast()
}

// DialTimeout replaces net.DialTimeout.
func DialTimeout(network, addr string, timeout time.Duration) (net.Conn, error) {
	if h := hooks.Load(); h != nil && h.Dial != nil {
		return h.Dial(network, addr, timeout)
	}

	return net.DialTimeout(network, addr, timeout)
}

// DialContext is a dialer for libraries that take one (gRPC): under a
// simulator the connection comes from the simulated network.
func DialContext(ctx context.Context, addr string) (c net.Conn, err error) {
	if h := hooks.Load(); h != nil && h.Dial != nil {
		return h.Dial("tcp", addr, 0)
	}

	var d net.Dialer

	return d.DialContext(ctx, "tcp", addr)
}

// MsgUDPConn is what internal/bindtodevice uses of *net.UDPConn.
type MsgUDPConn interface {
	net.PacketConn
	ReadMsgUDP(b, oob []byte) (n, oobn, flags int, addr *net.UDPAddr, err error)
	WriteMsgUDP(b, oob []byte, addr *net.UDPAddr) (n, oobn int, err error)
}

// NetHooks lets a simulator serve the sockets that code opens with a
// *net.ListenConfig of its own.
type NetHooks struct {
	Listen       func(ctx context.Context, network, addr string) (net.Listener, error)
	ListenPacket func(ctx context.Context, network, addr string) (net.PacketConn, error)
}

var netHooks atomic.Pointer[NetHooks]

// InstallNet installs h; nil uninstalls.
func InstallNet(h *NetHooks) { netHooks.Store(h) }

// Listen replaces lc.Listen.
func Listen(lc *net.ListenConfig, ctx context.Context, network, addr string) (net.Listener, error) {
	if h := netHooks.Load(); h != nil && h.Listen != nil {
		return h.Listen(ctx, network, addr)
	}

	return lc.Listen(ctx, network, addr)
}

// ListenPacket replaces lc.ListenPacket.
func ListenPacket(lc *net.ListenConfig, ctx context.Context, network, addr string) (net.PacketConn, error) {
	if h := netHooks.Load(); h != nil && h.ListenPacket != nil {
		return h.ListenPacket(ctx, network, addr)
	}

	return lc.ListenPacket(ctx, network, addr)
}
