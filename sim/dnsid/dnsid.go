// Package dnsid pins the message IDs that code under test draws with
// miekg's dns.Id (health-check probes, requests built from the JSON API,
// rewritten requests).  By default they come from a process-wide random
// source, so the IDs of the n-th run of an exploring process differ from those
// of a replay of that run in a fresh process; an outcome that depends on two
// IDs colliding (a stale duplicate reply accepted for a new probe) would not
// replay.  Pinned IDs are consecutive within a run, hence also never equal
// within 65536 draws.
package dnsid

import (
	"sync/atomic"

	"github.com/miekg/dns"
)

var seq atomic.Uint32

// Pin makes dns.Id return base+1, base+2, … from now on.  Call it at the
// start of every run.
func Pin(base uint16) {
	seq.Store(uint32(base))
	dns.Id = func() (id uint16) { return uint16(seq.Add(1)) }
}
