// Package model holds reference models and helpers shared by the engines.
package model

import (
	"fmt"
	"net/netip"
	"reflect"
	"sort"
	"strings"
	"time"

	"github.com/AdguardTeam/AdGuardDNS/internal/access"
	"github.com/AdguardTeam/AdGuardDNS/internal/agd"
	"github.com/AdguardTeam/AdGuardDNS/internal/agdpasswd"
	"github.com/AdguardTeam/AdGuardDNS/internal/agdtime"
)

// Describe renders every observable setting of v (a profile, a device, ...)
// as a canonical string: pointers are followed, interfaces with a Config
// method are rendered through it, locations by name, times in UTC
// nanoseconds.  Two values with equal descriptions have equal settings.
func Describe(v any) (s string) {
	var b strings.Builder
	describe(&b, reflect.ValueOf(v), 0)

	return b.String()
}

func describe(b *strings.Builder, v reflect.Value, depth int) {
	if depth > 12 {
		b.WriteString("<deep>")

		return
	}

	if !v.IsValid() {
		b.WriteString("<nil>")

		return
	}

	if v.CanInterface() {
		switch x := v.Interface().(type) {
		case time.Time:
			fmt.Fprintf(b, "t%d", x.UTC().UnixNano())

			return
		case time.Duration:
			fmt.Fprintf(b, "d%d", int64(x))

			return
		case netip.Addr:
			b.WriteString(x.String())

			return
		case netip.Prefix:
			b.WriteString(x.String())

			return
		case *agdtime.Location:
			if x == nil {
				b.WriteString("loc<nil>")
			} else {
				b.WriteString("loc:" + x.String())
			}

			return
		case *time.Location:
			if x == nil {
				b.WriteString("loc<nil>")
			} else {
				b.WriteString("loc:" + x.String())
			}

			return
		case access.Profile:
			if x == nil {
				b.WriteString("access<nil>")

				return
			}
			fmt.Fprintf(b, "access(%T)", x)
			describe(b, reflect.ValueOf(x.Config()), depth+1)

			return
		case agd.Ratelimiter:
			if x == nil {
				b.WriteString("rl<nil>")

				return
			}
			fmt.Fprintf(b, "rl(%T)", x)
			describe(b, reflect.ValueOf(x.Config()), depth+1)

			return
		case agdpasswd.Authenticator:
			if x == nil {
				b.WriteString("auth<nil>")

				return
			}
			fmt.Fprintf(b, "auth(%T)", x)
			if h, ok := x.(interface{ PasswordHash() []byte }); ok {
				fmt.Fprintf(b, "%x", h.PasswordHash())
			}

			return
		}
	}

	switch v.Kind() {
	case reflect.Pointer, reflect.Interface:
		if v.IsNil() {
			b.WriteString("<nil>")

			return
		}

		if v.Kind() == reflect.Interface {
			fmt.Fprintf(b, "(%s)", v.Elem().Type())
		} else {
			b.WriteString("&")
		}
		describe(b, v.Elem(), depth+1)
	case reflect.Struct:
		b.WriteString("{")
		t := v.Type()
		for i := 0; i < v.NumField(); i++ {
			if !t.Field(i).IsExported() {
				continue
			}
			b.WriteString(t.Field(i).Name + ":")
			describe(b, v.Field(i), depth+1)
			b.WriteString(" ")
		}
		b.WriteString("}")
	case reflect.Slice, reflect.Array:
		if v.Kind() == reflect.Slice && v.Len() == 0 {
			// nil and empty slices are the same setting.
			b.WriteString("[]")

			return
		}
		b.WriteString("[")
		for i := 0; i < v.Len(); i++ {
			describe(b, v.Index(i), depth+1)
			b.WriteString(",")
		}
		b.WriteString("]")
	case reflect.Map:
		keys := make([]string, 0, v.Len())
		vals := map[string]reflect.Value{}
		for _, k := range v.MapKeys() {
			ks := fmt.Sprint(k.Interface())
			keys = append(keys, ks)
			vals[ks] = v.MapIndex(k)
		}
		sort.Strings(keys)
		b.WriteString("map[")
		for _, k := range keys {
			b.WriteString(k + ":")
			describe(b, vals[k], depth+1)
			b.WriteString(",")
		}
		b.WriteString("]")
	default:
		fmt.Fprintf(b, "%v", v.Interface())
	}
}
